"""Driving the real quantize() along a scenario of spec/Pipeline.tla and projecting the result.

spec -> code : `run_impl` realises a scenario (flatbuffer, recipe with one rule per operator, injected generic
               statistics), calls the public API, and `compare` checks the outcome against the predicted
               terminal state (raise site / operator list / wiring / dtypes / parameter-equality classes / names).
code -> spec : `obs_record` turns (input model, output model) into the abstract observable state on which
               spec/Observed.tla lets TLC evaluate the GraphProps predicates.
"""
import json
import zlib
import os
import numpy as np

from harness import project
from harness import synth

os.environ.setdefault("TF_CPP_MIN_LOG_LEVEL", "3")


def _lib():
  from absl import logging as alog
  alog.set_verbosity(alog.ERROR)
  from ai_edge_quantizer import qtyping, quantizer
  return quantizer, qtyping


ACFG = {"a8a": (8, False), "a8s": (8, True), "a16": (16, True)}
# weight configs: bits, symmetric, granularity
WCFG = {"w8c": (8, True, "CHANNELWISE"), "w8t": (8, True, "TENSORWISE"), "w4c": (4, True, "CHANNELWISE"),
        "w4t": (4, True, "TENSORWISE"), "w8ca": (8, False, "CHANNELWISE"), "w8ta": (8, False, "TENSORWISE"),
        "w4ca": (4, False, "CHANNELWISE"), "w4ta": (4, False, "TENSORWISE")}


def mode_cfg(mode):
  """Mode record -> (OpQuantizationConfig, algorithm key)."""
  _, Q = _lib()
  m = mode["m"]
  if m == "F16":
    return Q.OpQuantizationConfig(weight_tensor_config=Q.TensorQuantizationConfig(16, dtype=Q.TensorDataType.FLOAT),
                                  compute_precision=Q.ComputePrecision.FLOAT, explicit_dequantize=True), "float_casting"
  wb, ws, wg = WCFG[mode["w"] if mode["w"] != "-" else "w8c"]
  w = Q.TensorQuantizationConfig(wb, ws, Q.QuantGranularity(wg))
  if m == "SRQ":
    ab, asym = ACFG[mode["a"]]
    return Q.OpQuantizationConfig(activation_tensor_config=Q.TensorQuantizationConfig(ab, asym), weight_tensor_config=w,
                                  compute_precision=Q.ComputePrecision.INTEGER), "min_max_uniform_quantize"
  if m == "DRQ":
    return Q.OpQuantizationConfig(weight_tensor_config=w, compute_precision=Q.ComputePrecision.INTEGER), "min_max_uniform_quantize"
  if m == "WO":
    return Q.OpQuantizationConfig(weight_tensor_config=w, compute_precision=Q.ComputePrecision.FLOAT,
                                  explicit_dequantize=True), "min_max_uniform_quantize"
  raise ValueError(m)


OPNAME = {"CONV_2D_TRANSPOSE": "CONV_2D_TRANSPOSE"}


def _supported(Q, md, code):
  from ai_edge_quantizer import algorithm_manager
  cfg, alg = mode_cfg(md)
  try:
    algorithm_manager.check_op_quantization_config(alg, Q.TFLOperationName(code), cfg)
    return True
  except ValueError:
    return False


def global_plan(scn, info, seed):
  """The scenario's modes as ONE scope '.*': a '*' rule plus operator-specific rules under the same regex, or None.

  Possible when every operator type (and the virtual INPUT / OUTPUT) has a single mode in the scenario. The '*' rule is
  one of the modes present; an operator type in another mode gets its own rule (also when it does not support the
  '*' config - the documented resolution skips the unsupported '*' rule and still applies the specific one); a type in
  no-quantize mode gets an explicit no_quantize rule when it supports the '*' config and no rule at all when it does not.
  """
  import json, zlib
  _, Q = _lib()
  opnames = {x.value for x in Q.TFLOperationName}
  bycode = {}
  for si, sub in enumerate(scn["subs"]):
    for oi, _ in enumerate(sub["ops"]):
      bycode.setdefault(info["codes"][si][oi], set()).add(json.dumps(scn["mode"][si][oi], sort_keys=True))
  bycode.setdefault("INPUT", set()).add(json.dumps(scn["inmode"], sort_keys=True))
  bycode.setdefault("OUTPUT", set()).add(json.dumps(scn["outmode"], sort_keys=True))
  if any(len(v) > 1 for v in bycode.values()):
    return None
  bycode = {c: json.loads(next(iter(v))) for c, v in bycode.items()}
  present = sorted({json.dumps(m, sort_keys=True) for m in bycode.values() if m["m"] != "NOQ"})
  if not present:
    return None
  pick = zlib.crc32(json.dumps([scn["mode"], scn["inmode"], scn["outmode"]], sort_keys=True).encode()) + seed
  if pick % 3 != 0:
    return None
  star = json.loads(present[(pick // 3) % len(present)])
  rules = [("*", star)]
  for code in sorted(bycode):
    md = bycode[code]
    if code not in opnames:
      if md["m"] != "NOQ":
        return None
      continue
    sup = _supported(Q, star, code)
    if md == star:
      if not sup:
        return None
    elif md["m"] == "NOQ":
      if sup:
        rules.append((code, md))
    else:
      rules.append((code, md))
  return rules


def has_f15(scn, codes):
  """Known finding F15 (C13 / C06): dynamic-range DEPTHWISE_CONV_2D with tensor-wise weights is accepted although the runtime's
  hybrid kernel reads per-channel scales; its output is garbage that differs from run to run, so executions of such a model
  cannot be compared with each other. Checks that compare interpreter outputs leave these models out."""
  return any(code == "DEPTHWISE_CONV_2D" and md["m"] == "DRQ" and str(md["w"]).rstrip("a").endswith("t")
             for codes_s, modes_s in zip(codes, scn["mode"]) for code, md in zip(codes_s, modes_s))


def apply_recipe(q, scn, info, seed=0):
  """One rule per quantised operator; regex = the unique name of its first output tensor.

  An operator in no-quantize mode is realised in one of the ways a recipe can resolve to no-quantize (C03): no matching
  rule, an explicit no_quantize rule, or a '*' rule whose config the operator does not support (skipped at resolution).
  One scenario in three whose modes are uniform per operator type is realised as a single scope instead (global_plan).
  """
  _, Q = _lib()
  plan = global_plan(scn, info, seed)
  if plan is not None:
    for code, md in plan:
      opn = Q.TFLOperationName.ALL_SUPPORTED if code == "*" else Q.TFLOperationName(code)
      if md["m"] == "NOQ":
        q.update_quantization_recipe(".*", opn, None, "no_quantize")
      else:
        cfg, alg = mode_cfg(md)
        q.update_quantization_recipe(".*", opn, cfg, alg)
    _maybe_serialized(q, scn, seed)
    return
  n = 0
  nsub = len(scn["subs"])
  opnames = {x.value for x in Q.TFLOperationName}
  unsupported = Q.OpQuantizationConfig(weight_tensor_config=Q.TensorQuantizationConfig(16, True), compute_precision=Q.ComputePrecision.INTEGER)
  for si, sub in enumerate(scn["subs"]):
    for oi, o in enumerate(sub["ops"]):
      md = scn["mode"][si][oi]
      if md["m"] == "NOQ":
        style = (seed + 3 * si + oi) % 3
        name = info["names"][si][o["outs"][0]] if info.get("names") else synth.tname(si, o["outs"][0], nsub)
        code = info["codes"][si][oi]
        if style == 1 and code in opnames:
          q.update_quantization_recipe(name, Q.TFLOperationName(code), None, "no_quantize")
          n += 1
        elif style == 2:
          q.update_quantization_recipe(name, Q.TFLOperationName.ALL_SUPPORTED, unsupported)
          n += 1
        continue
      cfg, alg = mode_cfg(md)
      q.update_quantization_recipe(synth.tname(si, o["outs"][0], nsub), Q.TFLOperationName(info["codes"][si][oi]), cfg, alg)
      n += 1
  for key, opn in (("inmode", Q.TFLOperationName.INPUT), ("outmode", Q.TFLOperationName.OUTPUT)):
    md = scn[key]
    if md["m"] != "NOQ":
      cfg, alg = mode_cfg(md)
      q.update_quantization_recipe(".*", opn, cfg, alg)
      n += 1
  if n == 0:
    q.update_quantization_recipe("nomatch_zz", Q.TFLOperationName.FULLY_CONNECTED, None, "no_quantize")
  _maybe_serialized(q, scn, seed)


def _maybe_serialized(q, scn, seed):
  """One scenario in three reaches the quantizer the way a recipe FILE does: the rules are written out as JSON text and loaded
  again (enum-valued fields arrive as plain strings)."""
  if (seed + zlib.crc32(json.dumps(scn["subs"], sort_keys=True).encode())) % 3 == 1:
    q.load_quantization_recipe(json.loads(json.dumps(q.get_quantization_recipe())))


def inject_stats(scn, info):
  """Generic, pairwise distinct, on-grid statistics for every float activation tensor of the input model."""
  stats = {}
  k = 0
  for si, sub in enumerate(scn["subs"]):
    for t, r in enumerate(sub["trole"]):
      if r != "act":
        continue
      rank = len(info["shapes"][si][t])
      shape = (1,) * rank
      lo = -(1.3125 + 0.375 * k)   # dyadic, never a bound that a fixed-range kernel uses
      hi = 0.5625 + 0.21875 * k
      stats[info["names"][si][t]] = {"min": np.full(shape, lo, np.float32), "max": np.full(shape, hi, np.float32)}
      k += 1
  return stats


def classify_exception(e):
  msg = str(e)
  if "share the same buffer" in msg or "same buffer" in msg:
    return "buffer_sharing"
  if "list.remove" in msg:
    return "list_remove"
  if "both quantized and unquantized" in msg:
    return "both_q_and_unq"
  if "multiple quantization parameters" in msg:
    return "multiple_producers"
  return "%s:%s" % (type(e).__name__, msg[:120])


def run_impl(scn, seed=0, stats="inject", const_fn=None, model=None, info=None):
  """Returns dict(outcome, why, in_bytes, out_bytes, info, exc)."""
  quantizer, _ = _lib()
  if model is None:
    model, info = synth.build(scn, seed, const_fn=const_fn)
  res = {"in_bytes": model, "info": info, "out_bytes": None, "exc": None}
  q = quantizer.Quantizer(model)
  apply_recipe(q, scn, info, seed)
  res["recipe"] = q.get_quantization_recipe()
  try:
    cal = None
    if q.need_calibration:
      if stats == "inject":
        cal = inject_stats(scn, info)
      else:
        cal = stats(q, model, info)
    res["cal"] = cal
    out = q.quantize(cal)
    res["outcome"], res["why"] = "done", "none"
    res["out_bytes"] = bytes(out.quantized_model)
  except Exception as e:  # pylint: disable=broad-except
    res["outcome"], res["why"], res["exc"] = "raised", classify_exception(e), e
  return res


# ---------------------------------------------------------------------------------------------- comparison
def _canon_partition(xs):
  seen = {}
  out = []
  for x in xs:
    key = repr(x)
    if key not in seen:
      seen[key] = len(seen)
    out.append(seen[key])
  return out


def _rint_half_even(fr):
  import math
  f = math.floor(fr)
  d = fr - f
  if d * 2 < 1:
    return f
  if d * 2 > 1:
    return f + 1
  return f if f % 2 == 0 else f + 1


def _fixed_params(cl, bits):
  from fractions import Fraction as F
  if bits == 16:
    return F(1, 32768), 0
  return (F(1, 256), -128) if cl == "SL" else (F(1, 128), 0)


def annot_key(p):
  """Parameter term -> key of the ANNOTATION it produces in the flatbuffer (dtype, scale, zero point).

  The library's parameter equality also compares the `symmetric` flag and the quantized data, which the annotation does
  not carry: a bias term drops its buffer; parameters re-derived from the overwritten range of a fixed-range output are
  evaluated exactly (TFLite-spec formulas on the fixed range), since e.g. tanh's 8-bit range under a symmetric 8-bit
  config gives (1/128, 0) again although the parameter objects differ.
  """
  from fractions import Fraction as F
  if p[0] == "B":
    return [p[0]] + p[2:]
  if p[0] == "FIXP":
    sc, zp = _fixed_params(p[1], p[2])
    return ["num", p[2], str(sc), zp]
  if p[0] == "P" and p[1][0] == "fix":
    cl, a0, a = p[1][1], p[1][2], p[2]
    bits0 = 16 if a0 == "a16" else 8
    sc0, zp0 = _fixed_params(cl, bits0)
    qmin0, qmax0 = -(2 ** (bits0 - 1)), 2 ** (bits0 - 1) - 1
    mx = (qmax0 - zp0) * sc0
    mn = -mx if a0 in ("a8s", "a16") else (qmin0 - zp0) * sc0
    bits = 16 if a == "a16" else 8
    qmin, qmax = -(2 ** (bits - 1)), 2 ** (bits - 1) - 1
    if a in ("a8s", "a16"):
      return ["num", bits, str(max(abs(mn), abs(mx)) / qmax), 0]
    bmax, bmin = max(mx, F(0)), min(mn, F(0))
    sc = (bmax - bmin) / (qmax - qmin)
    return ["num", bits, str(sc), _rint_half_even(qmin - bmin / sc)]
  return p


def spec_name(si, term, nsub):
  return synth.tname(si, term[0], nsub) + "".join(term[1:])


def compare(dump, impl, in_proj=None, out_proj=None):
  """Exact comparison of the specification's terminal state with the implementation's. Returns list of diffs."""
  diffs = []
  scn = dump["scn"]
  pred = (dump["pc"], dump["why"] if dump["pc"] == "raised" else "none")
  got = (impl["outcome"], impl["why"])
  if pred != got:
    return ["outcome: spec %s impl %s" % (pred, got)]
  if got[0] == "raised":
    return []
  out_proj = out_proj or project.project(impl["out_bytes"])
  in_proj = in_proj or project.project(impl["in_bytes"])
  obs = project.observe(scn, impl["info"], in_proj, out_proj)
  nsub = len(scn["subs"])
  if len(out_proj["subs"]) != nsub:
    return ["subgraph count %d != %d" % (len(out_proj["subs"]), nsub)]
  spec_pars, impl_pars = [], []
  for si in range(nsub):
    S, O = dump["R"][si], obs[si]
    sops = [(o["ins"], o["outs"], o["orig"], o["qk"]) for o in S["ops"]]
    iops = [(o["ins"], o["outs"], o["orig"], o["qk"]) for o in O["ops"]]
    if sops != iops:
      diffs.append("sub %d ops: spec %s impl %s" % (si, sops, iops))
    if S["outs"] != O["gouts"]:
      diffs.append("sub %d outputs: spec %s impl %s" % (si, S["outs"], O["gouts"]))
    if S["dt"] != O["dt"]:
      diffs.append("sub %d dtypes: spec %s impl %s" % (si, S["dt"], O["dt"]))
    onames = (impl.get("info") or {}).get("names")
    snames = [(onames[si][t[0]] + "".join(t[1:])) if onames else spec_name(si, t, nsub) for t in S["nm"]]
    if snames != O["names"]:
      diffs.append("sub %d names: spec %s impl %s" % (si, snames, O["names"]))
    # annotation equality: the bias term carries its buffer (data identity), the annotation does not
    spec_pars += [annot_key(p) for p in S["par"]]
    impl_pars += [("c", c) if c else ("none",) for c in O["pc"]]
  if len(spec_pars) == len(impl_pars) and _canon_partition(spec_pars) != _canon_partition(impl_pars):
    diffs.append("parameter classes: spec %s impl %s" % (_canon_partition(spec_pars), _canon_partition(impl_pars)))
  return diffs


# ---------------------------------------------------------------------------------------------- observation
def g_record(scn, in_proj):
  """Input graph G[s] in the vocabulary of GraphProps."""
  G = []
  for si, sub in enumerate(scn["subs"]):
    P = in_proj["subs"][si]
    ops = []
    for oi, o in enumerate(sub["ops"]):
      po = P["ops"][oi]
      ops.append({"kind": o["kind"], "ins": o["ins"], "outs": o["outs"], "sig": "%d:%s" % (po["code"], po["opts"])})
    sig = [x for x in in_proj["sigs"] if x["sub"] == si]
    pos = lambda lst, t: (lst.index(t) + 1) if t in lst else 0
    # the entries of EVERY signature that exports this subgraph (several signature defs may refer to one subgraph), in table order
    siginpos = [pos(P["gins"], x[1]) for sg_ in sig for x in sg_["ins"]] if sig else list(range(1, len(P["gins"]) + 1))
    sigoutpos = [pos(P["gouts"], x[1]) for sg_ in sig for x in sg_["outs"]] if sig else list(range(1, len(P["gouts"]) + 1))
    G.append({
        "ops": ops, "trole": sub["trole"], "gins": sub["gins"], "gouts": sub["gouts"], "siginpos": siginpos, "sigoutpos": sigoutpos,
        "nm": [t["name"] for t in P["tensors"]],
        "shp": [t["shape"] + [-7] + t["sig"] for t in P["tensors"]],
        "data": [in_proj["bufs"][t["buf"]]["sha"] if 0 <= t["buf"] < in_proj["nbuf"] else "oob" for t in P["tensors"]],
        "dt0": [t["dt"] for t in P["tensors"]],
    })
  return G


def r_record(scn, in_proj, out_proj, obs=None):
  obs = obs or project.observe(scn, None, in_proj, out_proj)
  Rr = []
  for si, sub in enumerate(scn["subs"]):
    O = obs[si]
    P = out_proj["subs"][si]
    sig = [s for s in out_proj["sigs"] if s["sub"] == si]
    sigin = [x[1] for sg_ in sig for x in sg_["ins"]] if sig else O["gins"]
    sigout = [x[1] for sg_ in sig for x in sg_["outs"]] if sig else O["gouts"]
    nt = len(P["tensors"])
    nt0 = O["nt0"]
    ops = []
    for o in O["ops"]:
      ops.append({"ins": o["ins"], "outs": o["outs"], "orig": o["orig"], "qk": o["qk"],
                  "sig": "ins" if o["orig"] == -1 else "%d:%s" % (o["code"], o["opts"])})
    Rr.append({
        "ops": ops, "outs": O["gouts"], "gins": O["gins"], "sigin": sigin, "sigout": sigout,
        "dt": O["dt"], "par": [["c", c] if c else ["none"] for c in O["pc"]],
        "nm": O["names"], "shp": [t["shape"] + [-7] + t["sig"] for t in P["tensors"]],
        "cst": [bl >= 0 for bl in O["buflen"]],
        "data": O["bufsha"][:nt0],
        "wrok": [True] * min(nt0, nt),
        "idxok": all(o["ciok"] for o in O["ops"]) and all(O["bufok"]),
    })
  return Rr


def obs_record(tid, scn, in_proj, out_proj):
  return {"id": tid, "G": g_record(scn, in_proj), "R": r_record(scn, in_proj, out_proj),
          "mode": scn["mode"], "inmode": scn["inmode"], "outmode": scn["outmode"]}
