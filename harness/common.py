"""Shared plumbing of the checks: tiers/seeds, evidence files, replay files, known findings, verdict lines."""
import argparse
import hashlib
import json
import os
import subprocess
import sys
import time

VERIF = os.path.dirname(os.path.dirname(os.path.abspath(__file__)))
REPO = os.environ.get("VERIF_REPO", "/repo")
EVIDENCE = os.environ.get("VERIF_EVIDENCE_DIR", os.path.join(VERIF, "evidence"))
REPLAYS = os.environ.get("VERIF_REPLAYS_DIR", os.path.join(VERIF, "replays"))
GUARD = "AI_EDGE_QUANTIZER_VERIF"


def setup_env():
  os.environ.setdefault("TF_CPP_MIN_LOG_LEVEL", "3")
  os.environ.setdefault("PYTHONHASHSEED", "0")
  os.environ[GUARD] = "1"
  if REPO not in sys.path:
    sys.path.insert(0, REPO)
  if VERIF not in sys.path:
    sys.path.insert(0, VERIF)


def parse_args(argv=None):
  ap = argparse.ArgumentParser()
  ap.add_argument("--tier", default=os.environ.get("VERIF_TIER", "quick"), choices=["quick", "thorough"])
  ap.add_argument("--seed", type=int, default=int(os.environ.get("VERIF_SEED", "0")))
  ap.add_argument("--replay", default=None)
  ap.add_argument("--procs", type=int, default=int(os.environ.get("VERIF_PROCS", "14")))
  return ap.parse_args(argv)


def known_findings():
  p = os.path.join(VERIF, "known_findings.json")
  if not os.path.exists(p):
    return {"findings": [], "fixed": []}
  return json.load(open(p))


def repo_head():
  try:
    return subprocess.run(["git", "-C", REPO, "rev-parse", "--short", "HEAD"], stdout=subprocess.PIPE, text=True).stdout.strip()
  except Exception:  # pylint: disable=broad-except
    return "?"


class Check:
  """Collects violations / known-finding hits / drift notes and writes evidence + verdict lines."""

  def __init__(self, prop, level, args):
    self.prop = prop
    self.level = level
    self.args = args
    self.t0 = time.time()
    self.violations = []     # (what, replay path)
    self.kf_hits = {}        # finding id -> count
    self.notes = []
    self.cov = {"samples": []}
    self.assumptions = []
    self.machinery_errors = []
    self.kf = known_findings()

  def violation(self, what, replay_obj):
    path = save_replay(self.prop, replay_obj)
    self.violations.append((what, path))
    if len(self.violations) <= 25:
      print("VIOLATION property=%s replay=%s  # %s" % (self.prop, path, what), flush=True)

  def known(self, fid, n=1):
    self.kf_hits[fid] = self.kf_hits.get(fid, 0) + n

  def note(self, msg):
    self.notes.append(msg)
    if len(self.notes) <= 15:
      print("NOTE %s" % msg, flush=True)

  def machinery(self, msg):
    self.machinery_errors.append(msg)
    print("MACHINERY-ERROR %s" % msg, flush=True)

  def finish(self):
    for f in self.kf.get("findings", []):
      if f["id"] in self.kf_hits and self.prop in f["property"].split(","):
        print("KNOWN-FINDING: property=%s %s %s (hits this run: %d)" % (self.prop, f["id"], f["what_fails"], self.kf_hits[f["id"]]))
    ev = {
        "property_id": self.prop,
        "tier": self.args.tier,
        "seed": self.args.seed,
        "level": self.level,
        "coverage": self.cov,
        "assumptions": self.assumptions,
        "wall_s": round(time.time() - self.t0, 2),
        "violations": len(self.violations),
        "known_finding_hits": self.kf_hits,
        "notes": self.notes[:50],
        "repo_head": repo_head(),
    }
    os.makedirs(EVIDENCE, exist_ok=True)
    with open(os.path.join(EVIDENCE, "%s.json" % self.prop), "w") as f:
      json.dump(ev, f, indent=1, default=str)
    if self.machinery_errors:
      print("RESULT property=%s machinery failure (%d)" % (self.prop, len(self.machinery_errors)))
      return 2
    if self.violations:
      print("RESULT property=%s VIOLATED (%d violations)" % (self.prop, len(self.violations)))
      return 1
    print("RESULT property=%s held on everything explored (%.0fs)" % (self.prop, time.time() - self.t0))
    return 0


def save_replay(prop, obj):
  d = os.path.join(REPLAYS, prop)
  os.makedirs(d, exist_ok=True)
  raw = json.dumps(obj, sort_keys=True, default=str)
  path = os.path.join(d, hashlib.sha256(raw.encode()).hexdigest()[:16] + ".json")
  with open(path, "w") as f:
    f.write(raw)
  return path


def sample_keep(seq, n, seed):
  """Deterministic sample of n items (all if fewer)."""
  import random
  seq = list(seq)
  if len(seq) <= n:
    return seq
  rnd = random.Random(seed)
  return rnd.sample(seq, n)


def as_dataset(samples, style):
  """The calibration data as the API's `Iterable`: a list (style 0), a generator (1) or a one-shot iterator (2)."""
  style %= 3
  if style == 0:
    return list(samples)
  if style == 1:
    return (s for s in list(samples))
  return iter(list(samples))
