"""Bounded configurations of spec/Pipeline.tla (constants as TLA+ expressions)."""
from harness import tlc

M = tlc.mode
S = tlc.tla_set
K = tlc.tla_str_set

NOQ = M("NOQ")
# the repairs present in /repo (see known_findings.json "fixed" and DESIGN section 6)
FIXES_NOW = ["perf", "remove", "aq", "sig", "uniq", "concat"]

ALL_KINDS = ["FC", "TCONV", "BMM", "BMMC", "EMB", "EW2", "EW1", "EW1A", "SAMEIN0", "SAMEIN1", "SAMEIN3", "SPLIT", "CONCAT", "CONCAT3",
             "FIXSL", "FIXT", "UNSUP", "UNSUP2"]

MODES_W_RICH = [NOQ, M("SRQ", "a8a", "w8c"), M("SRQ", "a16", "w8c"), M("SRQ", "a8s", "w8t"), M("DRQ", "-", "w8c"),
                M("DRQ", "-", "w8t"), M("WO", "-", "w8c"), M("WO", "-", "w8ca"), M("F16")]
MODES_A_RICH = [NOQ, M("SRQ", "a8a", "w8c"), M("SRQ", "a8s", "w8c"), M("SRQ", "a16", "w8c")]
IO_RICH = [NOQ, M("SRQ", "a8a", "w8c"), M("SRQ", "a16", "w8c")]

MODES_W_5 = [NOQ, M("SRQ", "a8a", "w8c"), M("SRQ", "a16", "w8c"), M("WO", "-", "w8c"), M("DRQ", "-", "w8c")]
MODES_A_3 = [NOQ, M("SRQ", "a8a", "w8c"), M("SRQ", "a16", "w8c")]
IO_2 = [NOQ, M("SRQ", "a8a", "w8c")]


WEIGHT_KINDS = ("FC", "TCONV", "BMM", "BMMC", "EMB")


def km_generic(kinds, modes_w, modes_a):
  """[kind -> modes]: weight-bearing kinds take modes_w (EMBEDDING_LOOKUP has no static-range mode, BATCH_MATMUL no
  float16 casting), UNSUP only no-quantize, the rest modes_a."""
  km = {}
  for k in kinds:
    if k in ("UNSUP", "UNSUP2"):
      km[k] = [NOQ]
    elif k in WEIGHT_KINDS:
      km[k] = [m for m in modes_w if not (k == "EMB" and '"SRQ"' in m) and not (k in ("BMM", "BMMC") and '"F16"' in m)]
    else:
      km[k] = list(modes_a)
  return km


def km_expr(km):
  return "(" + " @@ ".join('"%s" :> %s' % (k, S(v)) for k, v in km.items()) + ")"


def cfg(max_ops, kinds, modes_w, modes_a, io, share="tensor", max_sub=1, max_ins=1, fixes=None, km=None, dup="no", layout="alloc", sigorder="same", passthru=False):
  km = km or km_generic(kinds, modes_w, modes_a)
  return dict(MaxOps=str(max_ops), MaxSub=str(max_sub), MaxIns=str(max_ins), Kinds=K(kinds), KM=km_expr(km),
              IOModes=S(io), Share='"%s"' % share, Dup='"%s"' % dup, Layout='"%s"' % layout, SigOrder='"%s"' % sigorder, PassThru="TRUE" if passthru else "FALSE", Fixes=K(FIXES_NOW if fixes is None else fixes))


def quick_configs():
  return {
      # every operator kind alone, under every mode and I/O mode
      "q1_allkinds_1op": cfg(1, ALL_KINDS, MODES_W_RICH, MODES_A_RICH, IO_RICH, share="none", max_ins=1),
      # two-operator graphs over the kinds whose interaction drives the transformations
      "q2_core_2op": cfg(2, ["FC", "EW2", "CONCAT", "FIXT", "SAMEIN0"], [NOQ, M("SRQ", "a8a", "w8c"), M("WO", "-", "w8c")],
                         MODES_A_3, IO_2, share="tensor"),
      # a tensor listed twice among the subgraph outputs (return y, y)
      "q3_dupout_2op": cfg(2, ["FC", "EW1", "FIXT"], [NOQ, M("SRQ", "a8a", "w8c"), M("WO", "-", "w8c")],
                           [NOQ, M("SRQ", "a8a", "w8c")], IO_2, share="none", dup="only"),
      # signatures that list inputs / outputs in another order than the subgraph; a binary operator the quantizer does not know
      "q5_sigrev_2op": cfg(2, ["FC", "EW2", "UNSUP2"], [NOQ, M("SRQ", "a8a", "w8c")],
                           [NOQ, M("SRQ", "a8a", "w8c")], IO_2, share="tensor", sigorder="rev", max_ins=2),
      # a graph input that is also a graph output (return x, f(x))
      "q6_passthru_1op": cfg(1, ["FC", "EW2", "EW1", "FIXT", "SAMEIN0", "UNSUP"], [NOQ, M("SRQ", "a8a", "w8c"), M("WO", "-", "w8c"), M("DRQ", "-", "w8c")],
                             [NOQ, M("SRQ", "a8a", "w8c"), M("SRQ", "a16", "w8c")], IO_RICH, share="none", passthru=True, max_ins=2),
      # tensor table with all activations before all constants (legal, unusual)
      "q4_actsfirst_2op": cfg(2, ["FC", "EW2", "FIXT"], [NOQ, M("SRQ", "a8a", "w8c"), M("WO", "-", "w8c"), M("F16")],
                              [NOQ, M("SRQ", "a8a", "w8c")], IO_2, share="tensor", layout="actsfirst"),
  }


def thorough_configs():
  c = dict(quick_configs())
  c.update({
      "t1_7kinds_2op": cfg(2, ["FC", "EW2", "EW1", "SAMEIN0", "CONCAT", "FIXT", "UNSUP"], MODES_W_5, MODES_A_3, IO_2),
      "t2_aux_2op": cfg(2, ["TCONV", "BMM", "EMB", "EW1A", "SAMEIN1", "SAMEIN3", "SPLIT", "FIXSL", "EW2"],
                        [NOQ, M("SRQ", "a8a", "w8c"), M("DRQ", "-", "w8c"), M("WO", "-", "w8c"), M("F16")], MODES_A_3, IO_2),
      "t3_act_3op": cfg(3, ["EW1", "EW2", "FIXT", "UNSUP"], [NOQ], MODES_A_3, IO_2, share="none"),
      "t5_fc_3op": cfg(3, ["FC", "EW1"], [NOQ, M("SRQ", "a8a", "w8c"), M("WO", "-", "w8c")], [NOQ, M("SRQ", "a8a", "w8c")], [NOQ], share="none"),
      "t4_2in_2op": cfg(2, ["EW2", "CONCAT", "FC", "SPLIT"], [NOQ, M("SRQ", "a8a", "w8c")], [NOQ, M("SRQ", "a8a", "w8c"), M("SRQ", "a8s", "w8c")],
                        IO_2, max_ins=2),
  })
  return c
