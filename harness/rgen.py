"""Seeded random scenarios beyond the exhaustive TLC bound (same vocabulary as spec/Pipeline.tla)."""
import random

from harness import synth

NOQ = {"m": "NOQ", "a": "-", "w": "-"}
MODES_W = [NOQ, {"m": "SRQ", "a": "a8a", "w": "w8c"}, {"m": "SRQ", "a": "a16", "w": "w8c"}, {"m": "SRQ", "a": "a8s", "w": "w8t"},
           {"m": "DRQ", "a": "-", "w": "w8c"}, {"m": "DRQ", "a": "-", "w": "w8t"}, {"m": "WO", "a": "-", "w": "w8c"},
           {"m": "WO", "a": "-", "w": "w8ca"}, {"m": "WO", "a": "-", "w": "w4c"}, {"m": "F16", "a": "-", "w": "-"}]
MODES_A = [NOQ, {"m": "SRQ", "a": "a8a", "w": "w8c"}, {"m": "SRQ", "a": "a16", "w": "w8c"}, {"m": "SRQ", "a": "a8s", "w": "w8c"}]
IOMODES = [NOQ, {"m": "SRQ", "a": "a8a", "w": "w8c"}, {"m": "SRQ", "a": "a16", "w": "w8c"}]
WEIGHT_KINDS = ("FC", "TCONV", "BMM", "BMMC", "EMB")
ALL_KINDS = list(synth.KIND_SIG)


def kind_modes(k, uniform=None):
  if k in ("UNSUP", "UNSUP2"):
    return [NOQ]
  if k in WEIGHT_KINDS:
    ms = [m for m in MODES_W if not (k == "EMB" and m["m"] == "SRQ") and not (k in ("BMM", "BMMC") and m["m"] == "F16")]
    # 4-bit weights: policy allows them for FC/conv (srq), FC/EMB (drq), BMM/FC/EMB (wo); keep to the 8-bit ones elsewhere
    if k not in ("FC", "EMB"):
      ms = [m for m in ms if not m["w"].startswith("w4")]
    return ms
  return MODES_A


def gen_sub(rnd, nops, kinds, nin=1, share=True):
  role = ["act"] * nin
  tsh = [(1, 2)] * nin
  tbuf = [0] * nin
  ops = []
  avail = list(range(nin))      # act tensors usable as operands
  wuse = {}                     # weight tensor -> kind
  tries = 0
  while len(ops) < nops and tries < nops * 30:
    tries += 1
    k = rnd.choice(kinds)
    sig = synth.KIND_SIG[k]
    ins = []
    new_roles = []
    ok = True
    for r in sig:
      if r == "act":
        ins.append(rnd.choice(avail))
      elif r == "aux":
        ins.append(("new", "aux"))
      elif r == "b?":
        ins.append(-1 if rnd.random() < 0.4 else ("new", "b"))
      elif r == "w":
        cands = [t for t, kk in wuse.items() if kk == k]
        if share and cands and rnd.random() < 0.25:
          ins.append(rnd.choice(cands))
        else:
          ins.append(("new", "w"))
      elif r == "x":
        consts = [t for t in range(len(role)) if role[t] == "c"]
        u = rnd.random()
        if u < 0.7 or not ins and sig.count("x") == 2 and all(not isinstance(i, int) for i in ins):
          ins.append(rnd.choice(avail))
        elif u < 0.85 and consts:
          ins.append(rnd.choice(consts))
        else:
          ins.append(("new", "c"))
    acts = [i for i in ins if isinstance(i, int) and i >= 0 and role[i] == "act"]
    if k in ("EW2", "UNSUP2", "CONCAT", "CONCAT3"):
      if not acts:
        continue
      shs = [tsh[a] for a in acts]
      if k in ("EW2", "UNSUP2"):
        ns = {s[0] for s in shs} - {1}
        if len(ns) > 1:
          continue
        out_sh = (max(s[0] for s in shs), max(s[1] for s in shs))
      else:
        if len({s[1] for s in shs}) > 1:
          continue
        n = sum(tsh[i][0] if (isinstance(i, int) and role[i] == "act") else 1 for i in ins)
        if n > 6:
          continue
        out_sh = (n, shs[0][1])
      # an existing generic constant can only be reused under the same inner shape
      bad = False
      for i in ins:
        if isinstance(i, int) and i >= 0 and role[i] == "c":
          want = min(s[1] for s in shs) if k in ("EW2", "UNSUP2") else shs[0][1]
          if tsh[i] != (1, want):
            bad = True
      if bad:
        continue
    elif k == "SPLIT":
      if tsh[acts[0]][1] != 2:
        continue
      out_sh = (tsh[acts[0]][0], 1)
    elif k in ("EMB", "EW1A"):
      out_sh = (0, 0)
    else:
      out_sh = tsh[acts[0]]
    real_ins = []
    for i in ins:
      if isinstance(i, tuple):
        role.append(i[1])
        tbuf.append(0)
        if i[1] == "c":
          shs = [tsh[a] for a in acts]
          tsh.append((1, min(s[1] for s in shs) if k in ("EW2", "UNSUP2") else shs[0][1]))
        else:
          tsh.append((0, 0))
        real_ins.append(len(role) - 1)
        if i[1] == "w":
          wuse[len(role) - 1] = k
      else:
        real_ins.append(i)
    outs = []
    for _ in range(synth.NOUT.get(k, 1)):
      role.append("act")
      tbuf.append(0)
      tsh.append(out_sh)
      outs.append(len(role) - 1)
      if out_sh != (0, 0):
        avail.append(len(role) - 1)
    ops.append({"kind": k, "ins": real_ins, "outs": outs})
  # every graph input must be consumed
  used = {i for o in ops for i in o["ins"]}
  if any(t not in used for t in range(nin)) or not ops:
    return None
  produced = [t for o in ops for t in o["outs"]]
  sinks = [t for t in produced if t not in used]
  extra = [t for t in produced if t in used and rnd.random() < 0.25]
  gouts = sorted(set(sinks + extra))
  if rnd.random() < 0.1:        # a graph input returned as it is (return x, f(x))
    gouts = gouts + [rnd.randrange(nin)]
  if rnd.random() < 0.12:       # the same tensor listed twice among the outputs (return y, y)
    gouts = gouts + [rnd.choice(gouts)]
  sub = {"ops": ops, "trole": role, "tbuf": tbuf, "tsh": [list(x) for x in tsh], "gins": list(range(nin)), "gouts": gouts,
         "sigrev": rnd.random() < 0.3}
  u = rnd.random()
  if u < 0.15:        # activations before constants
    order = [t for t in range(len(role)) if role[t] == "act"] + [t for t in range(len(role)) if role[t] != "act"]
    sub = relabel(sub, order)
  elif u < 0.3:       # any order of the tensor table
    order = list(range(len(role)))
    rnd.shuffle(order)
    sub = relabel(sub, order)
  return sub


def relabel(sub, order):
  """The same graph with the tensor table in another order: order[p] = old id of the tensor at new position p."""
  perm = {old: new for new, old in enumerate(order)}
  perm[-1] = -1
  return {"ops": [{"kind": o["kind"], "ins": [perm[t] for t in o["ins"]], "outs": [perm[t] for t in o["outs"]]} for o in sub["ops"]],
          "trole": [sub["trole"][t] for t in order], "tbuf": [sub["tbuf"][t] for t in order], "tsh": [sub["tsh"][t] for t in order],
          "gins": [perm[t] for t in sub["gins"]], "gouts": [perm[t] for t in sub["gouts"]], "sigrev": sub.get("sigrev", False)}


def gen(seed, min_ops=3, max_ops=8, kinds=None, nsub=1, uniform_mode=None):
  """A random scenario; modes drawn per op (or one shared SRQ config when uniform_mode is given)."""
  rnd = random.Random(seed)
  kinds = kinds or ALL_KINDS
  while True:
    subs = []
    for _ in range(nsub):
      sub = None
      while sub is None:
        sub = gen_sub(rnd, rnd.randint(min_ops, max_ops), kinds, nin=rnd.choice([1, 1, 2]))
      subs.append(sub)
    if nsub > 1 and rnd.random() < 0.15:
      # an identity signature: a subgraph without operators whose single tensor is input and output
      subs[rnd.randrange(nsub)] = {"ops": [], "trole": ["act"], "tbuf": [0], "tsh": [[1, 2]], "gins": [0], "gouts": [0], "sigrev": False}
    mode = []
    for sub in subs:
      ms = []
      for o in sub["ops"]:
        cands = kind_modes(o["kind"])
        if uniform_mode is not None:
          ms.append(uniform_mode if uniform_mode in cands else NOQ)
        else:
          ms.append(rnd.choice(cands))
      mode.append(ms)
    scn = {"subs": subs, "mode": mode, "inmode": rnd.choice(IOMODES), "outmode": rnd.choice(IOMODES)}
    return scn


def gen_fanout(seed):
  """One weight TENSOR read by 9-12 FULLY_CONNECTED operators (a table shared by many layers), each dynamic-range or
  weight-only with the same weight parameters: the readers fall into two groups whose operator indices are far apart."""
  rnd = random.Random(seed)
  n = rnd.randint(9, 12)
  gran = rnd.choice(["w8c", "w8t"])
  drq, wo = {"m": "DRQ", "a": "-", "w": gran}, {"m": "WO", "a": "-", "w": gran}
  role, ops = ["act", "w"], []
  for i in range(n):
    role.append("act")
    ops.append({"kind": "FC", "ins": [0, 1, -1], "outs": [len(role) - 1]})
  nwo = rnd.randint(1, 3)
  wos = set(rnd.sample(range(n), nwo))
  if rnd.random() < 0.5:
    wos = {rnd.randint(0, 7), rnd.randint(8, n - 1)}      # one early and one late reader dequantise
  sub = {"ops": ops, "trole": role, "tbuf": [0] * len(role), "tsh": [[1, 2] if r == "act" else [0, 0] for r in role],
         "gins": [0], "gouts": [o["outs"][0] for o in ops], "sigrev": False}
  return {"subs": [sub], "mode": [[wo if i in wos else drq for i in range(n)]], "inmode": NOQ, "outmode": NOQ}


def gen_const_output(seed):
  """A random scenario in which one CONSTANT tensor (a weight, a bias or a generic constant operand) is also a graph output
  (a converter keeps such outputs when a variable is returned as it is)."""
  rnd = random.Random(seed * 2654435761 % (2 ** 31))
  for k in range(50):
    scn = gen(seed * 50 + k, 1, 4)
    cands = [(si, t) for si, sub in enumerate(scn["subs"]) for t, r in enumerate(sub["trole"])
             if r in ("w", "c", "b") and t not in sub["gouts"] and any(t in o["ins"] for o in sub["ops"])]
    if cands:
      si, t = rnd.choice(cands)
      scn["subs"][si]["gouts"] = list(scn["subs"][si]["gouts"]) + [t]
      return scn
  return scn


def const_output_family():
  """Single-operator graphs whose weight / bias / constant operand is also a graph output, under every mode of the operator."""
  out = []
  wmodes = [NOQ, {"m": "WO", "a": "-", "w": "w8c"}, {"m": "WO", "a": "-", "w": "w4c"}, {"m": "DRQ", "a": "-", "w": "w8c"},
            {"m": "SRQ", "a": "a8a", "w": "w8c"}, {"m": "SRQ", "a": "a16", "w": "w8c"}, {"m": "F16", "a": "-", "w": "-"}]
  for m in wmodes:
    for extra in (1, 2):      # the weight, the bias
      sub = {"ops": [{"kind": "FC", "ins": [0, 1, 2], "outs": [3]}], "trole": ["act", "w", "b", "act"], "tbuf": [0, 0, 0, 0],
             "tsh": [[1, 2], [0, 0], [0, 0], [1, 2]], "gins": [0], "gouts": [3, extra], "sigrev": False}
      out.append({"subs": [sub], "mode": [[m]], "inmode": NOQ, "outmode": NOQ})
  for m in MODES_A:
    sub = {"ops": [{"kind": "EW2", "ins": [0, 1], "outs": [2]}], "trole": ["act", "c", "act"], "tbuf": [0, 0, 0],
           "tsh": [[1, 2], [1, 2], [1, 2]], "gins": [0], "gouts": [2, 1], "sigrev": False}
    out.append({"subs": [sub], "mode": [[m]], "inmode": NOQ, "outmode": NOQ})
  return out
