"""Running TLC on the specifications under /verif/spec with generated model-checking modules.

A config is described in Python (constants as TLA+ expressions), written as work/<name>/MC.tla + MC.cfg
(an `MC` module EXTENDS the specification and defines every constant as an operator, so records and sets of
records are expressible) and run with the pre-installed tlc.
"""
import json
import os
import re
import shutil
import subprocess
import time

VERIF = os.path.dirname(os.path.dirname(os.path.abspath(__file__)))
SPEC = os.path.join(VERIF, "spec")
WORK = os.environ.get("VERIF_WORK_DIR", os.path.join(VERIF, "work"))

NOQ = '[m |-> "NOQ", a |-> "-", w |-> "-"]'


def mode(m, a="-", w="-"):
  return '[m |-> "%s", a |-> "%s", w |-> "%s"]' % (m, a, w)


def tla_set(xs):
  return "{" + ", ".join(xs) + "}"


def tla_str_set(xs):
  return "{" + ", ".join('"%s"' % x for x in xs) + "}"


def tla_bool(b):
  return "TRUE" if b else "FALSE"


class TLCResult:

  def __init__(self, out, rc, wall):
    self.out = out
    self.rc = rc
    self.wall = wall
    m = re.search(r"(\d+) states generated, (\d+) distinct states found", out)
    self.generated = int(m.group(1)) if m else 0
    self.distinct = int(m.group(2)) if m else 0
    m = re.search(r"The depth of the complete state graph search is (\d+)", out)
    self.depth = int(m.group(1)) if m else 0
    self.violated = re.findall(r"Invariant (\S+) is violated", out) + re.findall(r"The invariant of (\S+) is equal to FALSE", out)
    self.prop_violated = re.findall(r"(?:Action|Temporal) propert(?:y|ies) (\S+)? ?(?:is|were) violated", out)
    self.error = ("Error:" in out) and not self.violated
    self.finished = "Model checking completed" in out or "Finished in" in out

  def printed(self, tag):
    """All PrintT(<<"tag", ...>>) lines, parsed by bracket matching (robust to worker interleaving)."""
    res = []
    pat = '<<"%s"' % tag
    for line in self.out.splitlines():
      i = line.find(pat)
      if i >= 0:
        res.append(line[i:])
    return res

  def json_dumps(self, tag="DUMP"):
    out = []
    for line in self.printed(tag):
      try:
        body = line[line.index(",") + 1:line.rindex(">>")].strip()
        out.append(json.loads(json.loads(body)))
      except Exception:  # pylint: disable=broad-except
        continue
    return out

  def coverage(self):
    """Per-action counts from -coverage 1: {action: (distinct, total)}."""
    cov = {}
    for m in re.finditer(r"<(\w+) line \d+, col \d+ to line \d+, col \d+ of module \w+>: (\d+):(\d+)", self.out):
      cov[m.group(1)] = (int(m.group(2)), int(m.group(3)))
    return cov


def run(name, spec_module, constants, invariants=(), constraints=(), properties=(), extra_defs="",
        workers=16, timeout=3600, simulate=None, depth=None, coverage=False, postcondition=None,
        spec_name="Spec", env=None, extends=None, view=None, deadlock=False, seed=None):
  wd = os.path.join(WORK, name)
  shutil.rmtree(wd, ignore_errors=True)
  os.makedirs(wd)
  for f in os.listdir(SPEC):
    if f.endswith(".tla"):
      shutil.copy(os.path.join(SPEC, f), wd)
  lines = ["---- MODULE MC ----", "EXTENDS %s" % (extends or spec_module), ""]
  cfg = []
  if constants:
    cfg.append("CONSTANTS")
  for k, v in constants.items():
    lines.append("const_%s == %s" % (k, v))
    cfg.append("  %s <- const_%s" % (k, k))
  lines.append(extra_defs)
  lines.append("====")
  cfg.append("SPECIFICATION %s" % spec_name)
  for i in invariants:
    cfg.append("INVARIANT %s" % i)
  for c in constraints:
    cfg.append("CONSTRAINT %s" % c)
  for p in properties:
    cfg.append("PROPERTY %s" % p)
  if postcondition:
    cfg.append("POSTCONDITION %s" % postcondition)
  if view:
    cfg.append("VIEW %s" % view)
  cfg.append("CHECK_DEADLOCK %s" % ("TRUE" if deadlock else "FALSE"))
  open(os.path.join(wd, "MC.tla"), "w").write("\n".join(lines) + "\n")
  open(os.path.join(wd, "MC.cfg"), "w").write("\n".join(cfg) + "\n")
  cmd = ["tlc", "-workers", str(workers), "-metadir", os.path.join(wd, "states"), "-noGenerateSpecTE"]
  if coverage:
    cmd += ["-coverage", "1"]
  if simulate:
    cmd += ["-simulate", simulate]
    if seed is not None:
      cmd += ["-seed", str(seed)]
  if depth:
    cmd += ["-depth", str(depth)]
  cmd += ["-config", "MC.cfg", "MC.tla"]
  # A run that depends on the specification text and the generated MC files only (no observation / trace / scenario file in
  # `env`, no simulation) is a pure function of them: its output is kept under work/tlc_cache and reused by the next check
  # that asks for exactly the same run (C01/C02/C03 and C04/C05 share their design-level explorations). Nothing in it depends
  # on /repo. VERIF_TLC_CACHE=0 turns it off.
  cache_file = None
  if not env and not simulate and os.environ.get("VERIF_TLC_CACHE", "1") != "0":
    import hashlib
    h = hashlib.sha256()
    for f in sorted(os.listdir(wd)):
      if f.endswith((".tla", ".cfg")):
        h.update(f.encode() + b"\0" + open(os.path.join(wd, f), "rb").read() + b"\0")
    h.update(" ".join(x for x in cmd if not x.startswith(wd)).encode())
    cache_file = os.path.join(os.environ.get("VERIF_TLC_CACHE_DIR", os.path.join(WORK, "tlc_cache")), h.hexdigest() + ".json")
    if os.path.exists(cache_file):
      try:
        c = json.load(open(cache_file))
        open(os.path.join(wd, "tlc.out"), "w").write(c["out"])
        res = TLCResult(c["out"], c["rc"], c["wall"])
        res.cached = True
        return res
      except Exception:  # pylint: disable=broad-except
        pass
  t0 = time.time()
  e = dict(os.environ)
  if env:
    e.update(env)
  try:
    p = subprocess.run(cmd, cwd=wd, stdout=subprocess.PIPE, stderr=subprocess.STDOUT, timeout=timeout, env=e, text=True)
    out, rc = p.stdout, p.returncode
  except subprocess.TimeoutExpired as ex:
    out = (ex.stdout or b"").decode() if isinstance(ex.stdout, bytes) else (ex.stdout or "")
    out += "\nTIMEOUT\n"
    rc = 124
    subprocess.run(["pkill", "-f", "tlc2[.]TLC.*" + re.escape(wd)], check=False)
  wall = time.time() - t0
  open(os.path.join(wd, "tlc.out"), "w").write(out)
  shutil.rmtree(os.path.join(wd, "states"), ignore_errors=True)
  res = TLCResult(out, rc, wall)
  if cache_file and res.finished and not res.error and rc in (0, 12) and len(out) < 120 * 1024 * 1024:
    os.makedirs(os.path.dirname(cache_file), exist_ok=True)
    tmp = cache_file + ".%d.tmp" % os.getpid()
    json.dump({"out": out, "rc": rc, "wall": wall}, open(tmp, "w"))
    os.replace(tmp, cache_file)
  return res
