"""Engine shared by the checks decided with spec/Pipeline.tla (C01, C02, C03, C08, C15, C19).

1. design level : TLC explores Pipeline.tla exhaustively for the tier's configurations, checking the
                  GraphProps invariants on every reachable state and dumping every terminal state.
2. spec -> code : every dumped terminal state (a seeded sample in the quick tier) is realised as a flatbuffer +
                  recipe + injected statistics and driven through the real quantize(); outcome, raise site,
                  operator list, wiring, dtypes, names and parameter classes must equal the prediction.
3. code -> spec : the models returned (plus seeded random larger graphs the model checker cannot reach)
                  are projected to abstract states and TLC evaluates the same GraphProps predicates on them
                  (spec/Observed.tla); only a false predicate on an observed state is a VIOLATION.
"""
import concurrent.futures as cf
import json
import os
import signal
import time

from harness import common
from harness import tlc

_W = {}


def _winit(repo):
  import sys
  os.environ["TF_CPP_MIN_LOG_LEVEL"] = "3"
  os.environ[common.GUARD] = "1"
  if repo not in sys.path:
    sys.path.insert(0, repo)
  if common.VERIF not in sys.path:
    sys.path.insert(0, common.VERIF)
  from harness import pipeline, project, synth  # pylint: disable=g-import-not-at-top
  _W["pipeline"], _W["project"], _W["synth"] = pipeline, project, synth


def interp_run(model_bytes, timeout=30):
  """Allocate + invoke the model (plain and through every signature runner) in a forked child.

  Returns "ok" | "error:<msg>" | "abort:<signal>".  A crash of the child is an observation, not a crash of
  the check.
  """
  r, w = os.pipe()
  pid = os.fork()
  if pid == 0:
    try:
      os.close(r)
      import numpy as np
      from ai_edge_litert import interpreter as tfl
      msg = "ok"
      try:
        it = tfl.Interpreter(model_content=bytes(model_bytes),
                             experimental_op_resolver_type=tfl.OpResolverType.BUILTIN_WITHOUT_DEFAULT_DELEGATES)
        it.allocate_tensors()
        rng = np.random.default_rng(0)
        for d in it.get_input_details():
          if d["dtype"] == np.float32:
            v = np.abs(rng.normal(size=d["shape"])).astype(np.float32) + np.float32(0.1)
          else:
            v = np.zeros(d["shape"], d["dtype"])
          it.set_tensor(d["index"], v)
        it.invoke()
        outs = [it.get_tensor(d["index"]) for d in it.get_output_details()]
        for key in it.get_signature_list():
          run = it.get_signature_runner(key)
          feeds = {}
          for name, d in run.get_input_details().items():
            feeds[name] = (np.abs(rng.normal(size=d["shape"])).astype(np.float32) + np.float32(0.1) if d["dtype"] == np.float32
                           else np.zeros(d["shape"], d["dtype"]))
          res = run(**feeds)
          if len(res) != len(it.get_signature_list()[key]["outputs"]):
            msg = "error:signature %s returned %d outputs" % (key, len(res))
      except Exception as e:  # pylint: disable=broad-except
        msg = "error:%s: %s" % (type(e).__name__, str(e)[:200])
      os.write(w, msg.encode())
    finally:
      os._exit(0)
  os.close(w)
  t0 = time.time()
  status = None
  while time.time() - t0 < timeout:
    p, st = os.waitpid(pid, os.WNOHANG)
    if p:
      status = st
      break
    time.sleep(0.002)
  if status is None:
    os.kill(pid, signal.SIGKILL)
    os.waitpid(pid, 0)
    os.close(r)
    return "abort:timeout"
  data = b""
  while True:
    chunk = os.read(r, 65536)
    if not chunk:
      break
    data += chunk
  os.close(r)
  if os.WIFSIGNALED(status):
    return "abort:signal %d" % os.WTERMSIG(status)
  return data.decode() or "abort:no report"


def run_fixture(fix, scn, info):
  """A real .tflite file quantized with a shipped recipe file (unchanged) and injected generic statistics."""
  import numpy as np
  pipeline = _W["pipeline"]
  from ai_edge_quantizer import quantizer
  model = open(fix["model"], "rb").read()
  impl = {"in_bytes": model, "info": info, "out_bytes": None, "exc": None}
  q = quantizer.Quantizer(model, fix["recipe"])
  try:
    cal = None
    if q.need_calibration:
      cal, k = {}, 0
      for si, sub in enumerate(scn["subs"]):
        for t, r in enumerate(sub["trole"]):
          if r == "act":
            sh = (1,) * len(info["shapes"][si][t])
            cal[info["names"][si][t]] = {"min": np.full(sh, -(1.3125 + 0.375 * k), np.float32), "max": np.full(sh, 0.5625 + 0.21875 * k, np.float32)}
            k += 1
    out = q.quantize(cal)
    impl["outcome"], impl["why"], impl["out_bytes"] = "done", "none", bytes(out.quantized_model)
  except Exception as e:  # pylint: disable=broad-except
    impl["outcome"], impl["why"], impl["exc"] = "raised", pipeline.classify_exception(e), e
  return impl


def fixture_items(interp):
  """(items, scenarios): every model under tests/models that is a float model in converter normal form x every recipe file."""
  import glob
  from harness import extract  # pylint: disable=g-import-not-at-top
  items = []
  mdir = os.path.join(common.REPO, "ai_edge_quantizer/tests/models")
  rdir = os.path.join(common.REPO, "ai_edge_quantizer/recipes")
  for mp in sorted(glob.glob(os.path.join(mdir, "*.tflite"))):
    mb = open(mp, "rb").read()
    for rp in sorted(glob.glob(os.path.join(rdir, "*.json"))):
      try:
        scn, info = extract.extract(mb, json.load(open(rp)))
      except Exception:  # pylint: disable=broad-except
        continue            # not expressible in the specification's vocabulary (already quantized, BMM of two activations, ...)
      items.append(dict(scn=scn, info=info, fixture={"model": mp, "recipe": rp}, dump=None, seed=0, interp=interp,
                        tag="fixture:%s:%s" % (os.path.basename(mp), os.path.basename(rp))))
  return items


def _task(item):
  """item = dict(scn, dump|None, seed, interp: bool, stats)."""
  pipeline, project, synth = _W["pipeline"], _W["project"], _W["synth"]
  scn = item["scn"]
  out = {"key": synth.scn_key(scn), "diffs": None, "obs": None, "interp": None, "unreal": None, "outcome": None,
         "why": None, "tag": item.get("tag", "")}
  tpath = os.path.join(tlc.WORK, "trace_%d.ndjson" % os.getpid())
  os.makedirs(tlc.WORK, exist_ok=True)
  if os.path.exists(tpath):
    os.unlink(tpath)
  os.environ["AI_EDGE_QUANTIZER_VERIF_TRACE"] = tpath       # hook H2: one event per applied instruction
  ppath = os.path.join(tlc.WORK, "plan_%d.ndjson" % os.getpid())
  if os.path.exists(ppath):
    os.unlink(ppath)
  os.environ["AI_EDGE_QUANTIZER_VERIF_PLAN_TRACE"] = ppath  # hook H4: the instruction plan the generator hands to the performer
  try:
    if item.get("fixture"):
      impl = run_fixture(item["fixture"], scn, item["info"])
    else:
      impl = pipeline.run_impl(scn, seed=item.get("seed", 0))
    out["events"] = [json.loads(x) for x in open(tpath)] if os.path.exists(tpath) else []
    plans = [json.loads(x) for x in open(ppath)] if os.path.exists(ppath) else []
    out["plan"] = plans[-1] if plans else []      # (one quantize() call per scenario)
  except synth.Unrealisable as e:
    out["unreal"] = str(e)
    return out
  except Exception as e:  # pylint: disable=broad-except
    out["outcome"], out["why"] = "harness-error", "%s: %s" % (type(e).__name__, str(e)[:300])
    return out
  out["outcome"], out["why"] = impl["outcome"], impl["why"]
  out["codes"] = impl["info"]["codes"]
  if impl["outcome"] == "done":
    inp = project.project(impl["in_bytes"])
    try:
      outp = project.project(impl["out_bytes"])
    except Exception as e:  # pylint: disable=broad-except
      outp = None
      out["parse_error"] = "%s: %s" % (type(e).__name__, str(e)[:300])
    if outp is not None:
      try:
        out["obs"] = pipeline.obs_record(0, scn, inp, outp)
        if item.get("dump") is not None:
          out["diffs"] = pipeline.compare(item["dump"], impl, inp, outp)
      except Exception as e:  # pylint: disable=broad-except
        out["outcome"], out["why"] = "harness-error", "%s: %s" % (type(e).__name__, str(e)[:300])
        return out
    if item.get("interp"):
      out["interp"] = interp_run(impl["out_bytes"])
      if out["interp"] != "ok" and interp_run(impl["in_bytes"]) != "ok":
        # the synthesised FLOAT model itself does not run (e.g. a shape combination the synthesiser got wrong): the interpreter
        # clause says nothing about the quantizer here; counted, not judged
        out["interp"] = None
        out["float_model_does_not_run"] = True
  elif item.get("dump") is not None:
    out["diffs"] = pipeline.compare(item["dump"], impl)
  return out


def run_impl_many(items, procs, repo=None):
  repo = repo or common.REPO
  if not items:
    return []
  procs = max(1, min(procs, len(items) // 20 + 1))
  res = []
  with cf.ProcessPoolExecutor(max_workers=procs, initializer=_winit, initargs=(repo,)) as ex:
    for r in ex.map(_task, items, chunksize=max(1, min(50, len(items) // (procs * 4) + 1))):
      res.append(r)
  return res


def observe_with_tlc(name, obs_list, workers=1):
  """TLC evaluates the GraphProps predicates on every observed state. Returns {id: verdict dict}."""
  if not obs_list:
    return {}, None
  path = os.path.join(tlc.WORK, name + "_obs.json")
  os.makedirs(tlc.WORK, exist_ok=True)
  for i, o in enumerate(obs_list):
    o["id"] = i + 1
  with open(path, "w") as f:
    json.dump(obs_list, f)
  r = tlc.run(name, "Observed", {}, constraints=["Emit"], workers=workers, env={"OBS_FILE": path}, timeout=3600)
  verdicts = {}
  for line in r.printed("VERDICT"):
    try:
      v = json.loads(json.loads(line[line.index(",") + 1:line.rindex(">>")].strip()))
      verdicts[v["id"]] = v
    except Exception:  # pylint: disable=broad-except
      pass
  return verdicts, r


MAX_DUMPS = 60000      # terminal states parsed per exploration (a deterministic subset of the lines beyond that)


def design_run(name, consts, invariants, dump=True, workers=16, timeout=3600, coverage=False):
  r = tlc.run(name, "Pipeline", consts, invariants=invariants, constraints=["DumpC"] if dump else [], workers=workers,
              timeout=timeout, coverage=coverage)
  dumps = {}
  if dump:
    import zlib  # pylint: disable=g-import-not-at-top
    from harness import synth  # pylint: disable=g-import-not-at-top
    lines = r.printed("DUMP")
    r.dump_total = len(lines)
    if len(lines) > MAX_DUMPS:
      # every state was checked by TLC; only a subset of the terminal states is kept for the replay (memory): chosen by a hash
      # of the line, so the choice does not depend on the order in which TLC's workers printed them
      m = len(lines) // MAX_DUMPS + 1
      lines = [l for l in lines if zlib.crc32(l.encode()) % m == 0]
    parsed = []
    for line in lines:
      try:
        parsed.append(json.loads(json.loads(line[line.index(",") + 1:line.rindex(">>")].strip())))
      except Exception:  # pylint: disable=broad-except
        continue
    for d in parsed:
      dumps.setdefault(synth.scn_key(d["scn"]), d)
    r.dump_lines, r.dump_parsed = len(lines), len(parsed)
  return r, dumps


def design_run_from(name, scns, invariants=(), workers=16, timeout=3600):
  """Runs the specification's machine on GIVEN scenarios (PipelineFrom.tla); returns (result, {key: terminal dump})."""
  from harness import configs, synth  # pylint: disable=g-import-not-at-top
  path = os.path.join(tlc.WORK, name + "_scns.json")
  os.makedirs(tlc.WORK, exist_ok=True)
  clean = [{k: v for k, v in s.items() if k in ("subs", "mode", "inmode", "outmode")} for s in scns]
  for s in clean:
    for sub in s["subs"]:
      sub.setdefault("tbuf", [0] * len(sub["trole"]))
      sub.setdefault("tsh", [[0, 0]] * len(sub["trole"]))
      sub.setdefault("sigrev", False)
  with open(path, "w") as f:
    json.dump(clean, f)
  c = configs.cfg(1, ["FC"], [configs.NOQ], [configs.NOQ], [configs.NOQ])
  r = tlc.run(name, "PipelineFrom", c, invariants=list(invariants), constraints=["DumpC"], spec_name="SpecFrom", workers=workers,
              env={"SCN_FILE": path}, extends="PipelineFrom", timeout=timeout)
  dumps = {}
  for d in r.json_dumps():
    dumps.setdefault(synth.scn_key(d["scn"]), d)
  return r, dumps


def validate_traces(name, results, workers=16, timeout=3600):
  """Step-level trace validation (PipelineTrace.tla) of the hook events of every executed scenario.

  Returns (accepted, rejected list of (result index, verdict), TLC result). A rejection is drift of the
  implementation-shaped part of the specification (reported as NOTE), never by itself a violation.
  """
  from harness import configs  # pylint: disable=g-import-not-at-top
  idx = [i for i, r in enumerate(results) if r.get("events") is not None and r.get("unreal") is None and r.get("outcome") in ("done", "raised")]
  if not idx:
    return 0, [], None
  scns, traces, plans = [], [], []
  for i in idx:
    scn = results[i]["scn"]
    clean = {k: scn[k] for k in ("subs", "mode", "inmode", "outmode")}
    for sub in clean["subs"]:
      sub.setdefault("tbuf", [0] * len(sub["trole"]))
      sub.setdefault("tsh", [[0, 0]] * len(sub["trole"]))
      sub.setdefault("sigrev", False)
    scns.append(clean)
    traces.append(results[i]["events"])
    plans.append(results[i].get("plan") or [])
  sp, tp, pp = os.path.join(tlc.WORK, name + "_scns.json"), os.path.join(tlc.WORK, name + "_traces.json"), os.path.join(tlc.WORK, name + "_plans.json")
  json.dump(scns, open(sp, "w"))
  json.dump(traces, open(tp, "w"))
  json.dump(plans, open(pp, "w"))
  c = configs.cfg(1, ["FC"], [configs.NOQ], [configs.NOQ], [configs.NOQ])
  r = tlc.run(name, "PipelineTrace", c, constraints=["EmitT"], spec_name="TraceSpec", workers=workers, env={"SCN_FILE": sp, "TRACE_FILE": tp, "PLAN_FILE": pp},
              extends="PipelineTrace", timeout=timeout)
  best = {}
  for line in r.printed("TVERDICT"):
    try:
      v = json.loads(json.loads(line[line.index(",") + 1:line.rindex(">>")].strip()))
    except Exception:  # pylint: disable=broad-except
      continue
    if v["ti"] not in best or v["accepted"] or v["consumed"] > best[v["ti"]]["consumed"]:
      if not (v["ti"] in best and best[v["ti"]]["accepted"]):
        best[v["ti"]] = v
  rejected = []
  accepted = 0
  for k, i in enumerate(idx):
    v = best.get(k + 1)
    if v is None:
      rejected.append((i, {"accepted": False, "consumed": -1, "len": len(traces[k]), "pc": "no verdict"}))
    elif v["accepted"] and (results[i]["outcome"] == "done") == (v["pc"] == "done"):
      accepted += 1
    else:
      rejected.append((i, v))
  return accepted, rejected, r
