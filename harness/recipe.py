"""Binding of spec/Recipe.tla to recipe_manager.RecipeManager / Quantizer (C11, C12)."""
import copy
import json
import re

from harness import tlc


def lib():
  from absl import logging as alog
  alog.set_verbosity(alog.ERROR)
  from ai_edge_quantizer import algorithm_manager, qtyping, recipe_manager, quantizer
  return algorithm_manager, qtyping, recipe_manager, quantizer


ALG = {"minmax": "min_max_uniform_quantize", "fcast": "float_casting", "noq": "no_quantize"}
ALG_INV = {v: k for k, v in ALG.items()}


def alphabet():
  """Concrete meaning of the ids used in the specification."""
  _, Q, _, _ = lib()
  T = Q.TensorQuantizationConfig
  cfgs = {
      "srq": Q.OpQuantizationConfig(activation_tensor_config=T(8, False), weight_tensor_config=T(8, True, Q.QuantGranularity.CHANNELWISE),
                                    compute_precision=Q.ComputePrecision.INTEGER),
      "drq": Q.OpQuantizationConfig(weight_tensor_config=T(8, True, Q.QuantGranularity.CHANNELWISE), compute_precision=Q.ComputePrecision.INTEGER),
      "bad": Q.OpQuantizationConfig(weight_tensor_config=T(16, True), compute_precision=Q.ComputePrecision.INTEGER),
      "skip": Q.OpQuantizationConfig(weight_tensor_config=T(16, True), compute_precision=Q.ComputePrecision.INTEGER, skip_checks=True),
      "f16": Q.OpQuantizationConfig(weight_tensor_config=T(16, dtype=Q.TensorDataType.FLOAT), compute_precision=Q.ComputePrecision.FLOAT,
                                    explicit_dequantize=True),
      # a stale block size next to a non-blockwise granularity ("ignored otherwise"): part of the config's identity all the same
      "drqb": Q.OpQuantizationConfig(weight_tensor_config=T(8, True, Q.QuantGranularity.CHANNELWISE, block_size=32), compute_precision=Q.ComputePrecision.INTEGER),
      "dflt": None,
  }
  regexes = {"r1": ".*", "r2": "model/a", "r3": "add1"}
  scopes = {"s1": "model/a/fc1;", "s2": "model/b/add1;", "s3": "model/a/add2;"}
  opsels = ["*", "FULLY_CONNECTED", "ADD"]
  queryops = ["FULLY_CONNECTED", "ADD"]
  cfgalgs = [("srq", "minmax"), ("drq", "minmax"), ("bad", "minmax"), ("dflt", "minmax"), ("f16", "fcast"), ("skip", "minmax"),
             ("dflt", "noq"), ("srq", "noq"), ("drqb", "minmax")]
  lists = [
      [("r1", "*", ("srq", "minmax"))],
      [("r2", "FULLY_CONNECTED", ("drq", "minmax")), ("r2", "FULLY_CONNECTED", ("srq", "minmax")), ("r3", "ADD", ("srq", "minmax"))],   # same op twice: replaced in place
      [("r1", "FULLY_CONNECTED", ("srq", "minmax")), ("r2", "ADD", ("drq", "minmax")), ("r3", "FULLY_CONNECTED", ("drq", "minmax"))],   # second rule refused: prefix stays
      [("r2", "FULLY_CONNECTED", ("srq", "minmax")), ("r2", "*", ("drq", "minmax")), ("r2", "ADD", ("srq", "minmax"))],                 # '*' resets, a specific rule follows
  ]
  return dict(cfgs=cfgs, regexes=regexes, scopes=scopes, opsels=opsels, queryops=queryops, cfgalgs=cfgalgs, lists=lists)


def cfg_obj(A, cid):
  _, Q, _, _ = lib()
  c = A["cfgs"][cid]
  return c


def tables(A):
  """Matches (re.search) and Supported (the implementation's own check), read once."""
  am, Q, _, _ = lib()
  matches = {(r, s): re.search(rx, sc) is not None for r, rx in A["regexes"].items() for s, sc in A["scopes"].items()}
  supported = {}
  for (c, a) in A["cfgalgs"]:
    for op in A["queryops"]:
      if a == "noq":
        supported[((c, a), op)] = True
        continue
      cfg = A["cfgs"][c] or Q.OpQuantizationConfig()
      try:
        am.check_op_quantization_config(ALG[a], Q.TFLOperationName(op), cfg)
        supported[((c, a), op)] = True
      except ValueError:
        supported[((c, a), op)] = False
  hasw = {c: (o is not None and o.weight_tensor_config is not None) for c, o in A["cfgs"].items()}
  _, Q, _, _ = lib()
  A["_actcfg"] = {c: (o is not None and o.activation_tensor_config is not None and o.compute_precision == Q.ComputePrecision.INTEGER) for c, o in A["cfgs"].items()}
  return matches, supported, hasw


def tla_constants(A, max_len, fixes):
  matches, supported, hasw = tables(A)
  q = lambda s: '"%s"' % s
  ca = lambda c: "<<%s, %s>>" % (q(c[0]), q(c[1]))
  consts = dict(
      Regexes=tlc.tla_str_set(sorted(A["regexes"])), OpSels=tlc.tla_str_set(A["opsels"]),
      CfgAlgs=tlc.tla_set([ca(c) for c in A["cfgalgs"]]),
      Scopes=tlc.tla_str_set(sorted(A["scopes"])), QueryOps=tlc.tla_str_set(A["queryops"]),
      Matches="[p \\in Regexes \\X Scopes |-> p \\in %s]" % tlc.tla_set(["<<%s, %s>>" % (q(r), q(s)) for (r, s), v in sorted(matches.items()) if v]),
      Supported="[p \\in CfgAlgs \\X QueryOps |-> p \\in %s]" % tlc.tla_set(["<<%s, %s>>" % (ca(c), q(o)) for (c, o), v in sorted(supported.items()) if v]),
      HasWeightCfg="[c \\in %s |-> c \\in %s]" % (tlc.tla_str_set(sorted(A["cfgs"])), tlc.tla_str_set(sorted(c for c, v in hasw.items() if v))),
      ActCfg="[c \\in %s |-> c \\in %s]" % (tlc.tla_str_set(sorted(A["cfgs"])), tlc.tla_str_set(sorted(c for c, v in A["_actcfg"].items() if v))),
      Lists="<<" + ", ".join("<<" + ", ".join("<<%s, %s, %s>>" % (q(r), q(o), ca(c)) for r, o, c in L) + ">>" for L in A.get("lists", [])) + ">>",
      ScopePairs=tlc.tla_set(["<<%s, %s>>" % (q(a), q(b)) for a, b in A.get("scope_pairs", [])]),
      MaxLen=str(max_len), Fixes=tlc.tla_str_set(fixes))
  return consts, dict(matches=matches, supported=supported)


# ------------------------------------------------------------------------------------------ implementation side
class Impl:
  """Drives a real RecipeManager with letters of the alphabet and reads its state back in spec vocabulary."""

  def __init__(self, A):
    self.A = A
    _, self.Q, self.rm_mod, _ = lib()
    self.cfg_dicts = {}
    for cid, c in A["cfgs"].items():
      d = (c or self.Q.OpQuantizationConfig()).to_dict()
      self.cfg_dicts[json.dumps(d, sort_keys=True, default=str)] = cid
    self.rx_inv = {v: k for k, v in A["regexes"].items()}
    # the API takes the algorithm as an AlgorithmName member or as its string value (what a JSON recipe holds): the replay
    # alternates between the two representations (per history), the specification does not distinguish them
    self.enum_keys = False

  def fresh(self):
    return self.rm_mod.RecipeManager()

  def load(self, rm, i):
    """load_quantization_recipe with list i (1-based) in exported (dict) form."""
    rules = []
    for r, o, (c, a) in self.A["lists"][i - 1]:
      cfg = self.A["cfgs"][c] or self.Q.OpQuantizationConfig()
      rules.append({"regex": self.A["regexes"][r], "operation": o, "algorithm_key": ALG[a], "op_config": json.loads(json.dumps(cfg.to_dict()))})
    try:
      rm.load_quantization_recipe(rules)
      return "ok"
    except ValueError:
      return "refused"
    except KeyError:
      return "keyerror"

  def step(self, rm, letter):
    if letter[0] == "load":
      return self.load(rm, letter[1])
    return self.add(rm, (letter[0], letter[1], tuple(letter[2])))

  def add(self, rm, letter):
    r, o, (c, a) = letter
    try:
      key = ALG[a]
      if self.enum_keys:
        from ai_edge_quantizer import algorithm_manager
        key = algorithm_manager.AlgorithmName(key)
      rm.add_quantization_config(self.A["regexes"][r], self.Q.TFLOperationName(o), self.A["cfgs"][c], key)
      return "ok"
    except ValueError:
      return "refused"

  def cfg_id(self, cfg_or_dict):
    d = cfg_or_dict if isinstance(cfg_or_dict, dict) else cfg_or_dict.to_dict()
    return self.cfg_dicts.get(json.dumps(d, sort_keys=True, default=str), "?" + json.dumps(d, sort_keys=True, default=str))

  def export(self, rm):
    out = []
    for e in rm.get_quantization_recipe():
      out.append([self.rx_inv.get(e["regex"], e["regex"]), str(getattr(e["operation"], "value", e["operation"])),
                  [self.cfg_id(e["op_config"]), ALG_INV.get(str(getattr(e["algorithm_key"], "value", e["algorithm_key"])), "?")]])
    return out

  def resolve(self, rm):
    res = {}
    for op in self.A["queryops"]:
      for s, sc in self.A["scopes"].items():
        alg, cfg = rm.get_quantization_configs(self.Q.TFLOperationName(op), sc)
        res[(op, s)] = [ALG_INV.get(str(getattr(alg, "value", alg)), "?"), self.cfg_id(cfg)]
    return res

  def roundtrip(self, rm):
    """JSON round trip into a fresh manager: (status, equal recipe?, equal resolution?)."""
    rec = rm.get_quantization_recipe()
    try:
      text = json.dumps(rec)
    except TypeError as e:
      return "not-json:%s" % e, False, False
    # the returned recipe is owned by the caller: editing it must not change what the store exports next (and saves)
    for e in rec:
      if isinstance(e.get("op_config"), dict):
        for k in list(e["op_config"]):
          if isinstance(e["op_config"][k], dict):
            e["op_config"][k]["num_bits"] = 3
        e["op_config"]["compute_precision"] = "EDITED"
      e["regex"] = "edited"
    try:
      again = json.dumps(rm.get_quantization_recipe())
    except TypeError:
      again = None
    if again != text:
      return "export-aliased", False, False
    rm2 = self.fresh()
    try:
      rm2.load_quantization_recipe(json.loads(text))
    except KeyError:
      return "keyerror", False, False
    except ValueError:
      return "refused", False, False
    except Exception as e:  # pylint: disable=broad-except
      return "exc:%s" % type(e).__name__, False, False
    # "resolves identically" includes the one resolution the Quantizer makes for the recipe as a whole: whether quantize() will
    # demand a calibration result (the same model and the same calibration result must give the same outcome on both sides)
    return ("ok", json.loads(json.dumps(rm2.get_quantization_recipe())) == json.loads(text),
            self.resolve(rm2) == self.resolve(rm) and bool(rm2.need_calibration()) == bool(rm.need_calibration()))


def parse_trans(r):
  out = []
  for line in r.printed("TRANS"):
    try:
      out.append(json.loads(json.loads(line[line.index(",") + 1:line.rindex(">>")].strip())))
    except Exception:  # pylint: disable=broad-except
      pass
  return out
