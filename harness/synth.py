"""Scenario -> .tflite flatbuffer (converter normal form) synthesiser.

A *scenario* is the abstract input graph the TLA+ specification (spec/Pipeline.tla) enumerates:

  {"subs": [{"ops": [{"kind": K, "ins": [tensor ids, -1 = absent], "outs": [tensor ids]}, ...],
             "trole": [role per tensor id]      act | w | b | c | aux
             "tbuf":  [buffer group per tensor]  0 = own buffer, g>0 = shares buffer with the others of group g
             "gins": [...], "gouts": [...]}, ...],
   "mode":  [[mode record per op] per subgraph]   {"m": NOQ|SRQ|DRQ|WO|F16, "a": a8a|a8s|a16|-, "w": w8c|w8t|w4c|w4t|w8ca|...|-}
   "inmode": mode record, "outmode": mode record,
   optional "codes": [[concrete builtin op name per op] per subgraph]  (filled in by concretise)}

Only the flatbuffer object API is used (no code of the library under verification).
"""
import hashlib
import zlib
import json

import numpy as np
from ai_edge_litert import schema_py_generated as S
from tensorflow.lite.tools import flatbuffer_utils

B = S.BuiltinOperator
BO = S.BuiltinOptions
TT = S.TensorType

# kind -> concrete operator names (members), in rotation order
KIND_MEMBERS = {
    "FC": ["FULLY_CONNECTED", "CONV_2D", "DEPTHWISE_CONV_2D"],
    "TCONV": ["CONV_2D_TRANSPOSE"],
    "BMM": ["BATCH_MATMUL"],
    "BMMC": ["BATCH_MATMUL"],
    "EMB": ["EMBEDDING_LOOKUP"],
    "EW2": ["ADD", "MUL", "SUB"],
    "EW1": ["GELU", "RSQRT"],
    "EW1A": ["MEAN"],
    "SAMEIN0": ["AVERAGE_POOL_2D"],
    "SAMEIN1": ["RESHAPE", "TRANSPOSE"],
    "SAMEIN3": ["STRIDED_SLICE"],
    "SPLIT": ["SPLIT"],
    "CONCAT": ["CONCATENATION"],
    "CONCAT3": ["CONCATENATION"],
    "FIXSL": ["SOFTMAX", "LOGISTIC"],
    "FIXT": ["TANH"],
    "UNSUP": ["RELU", "ABS"],
    "UNSUP2": ["MAXIMUM", "MINIMUM"],
}
CODE = {
    "FULLY_CONNECTED": B.FULLY_CONNECTED, "CONV_2D": B.CONV_2D, "DEPTHWISE_CONV_2D": B.DEPTHWISE_CONV_2D,
    "CONV_2D_TRANSPOSE": B.TRANSPOSE_CONV, "BATCH_MATMUL": B.BATCH_MATMUL, "EMBEDDING_LOOKUP": B.EMBEDDING_LOOKUP,
    "ADD": B.ADD, "MUL": B.MUL, "SUB": B.SUB, "GELU": B.GELU, "RSQRT": B.RSQRT, "MEAN": B.MEAN,
    "AVERAGE_POOL_2D": B.AVERAGE_POOL_2D, "RESHAPE": B.RESHAPE, "TRANSPOSE": B.TRANSPOSE,
    "STRIDED_SLICE": B.STRIDED_SLICE, "SPLIT": B.SPLIT, "CONCATENATION": B.CONCATENATION,
    "SOFTMAX": B.SOFTMAX, "LOGISTIC": B.LOGISTIC, "TANH": B.TANH, "RELU": B.RELU, "ABS": B.ABS, "MAXIMUM": B.MAXIMUM, "MINIMUM": B.MINIMUM,
}
CODE2NAME = {v: k for k, v in CODE.items()}
NAME2KIND = {n: k for k, ms in KIND_MEMBERS.items() for n in ms if k not in ("CONCAT3", "BMMC")}
# operand signature per kind (roles); "x" = act or generic constant; "w|act" for BMM rhs
KIND_SIG = {
    "FC": ["act", "w", "b?"], "TCONV": ["aux", "w", "act", "b?"], "BMM": ["act", "w"], "BMMC": ["w", "act"], "EMB": ["aux", "w"],
    "EW2": ["x", "x"], "EW1": ["act"], "EW1A": ["act", "aux"], "SAMEIN0": ["act"], "SAMEIN1": ["act", "aux"],
    "SAMEIN3": ["act", "aux", "aux", "aux"], "SPLIT": ["aux", "act"], "CONCAT": ["x", "x"], "CONCAT3": ["x", "x", "x"], "FIXSL": ["act"],
    "FIXT": ["act"], "UNSUP": ["act"], "UNSUP2": ["x", "x"],
}
NOUT = {"SPLIT": 2}


def opt(cls, **kw):
  o = cls()
  for k, v in kw.items():
    setattr(o, k, v)
  return o


class G:
  """Minimal flatbuffer model builder (object API)."""

  def __init__(self, description=b"synth"):
    self.m = S.ModelT()
    self.m.version = 3
    self.m.description = description
    self.m.operatorCodes = []
    self.m.buffers = [S.BufferT()]
    self.m.subgraphs = []
    self.m.signatureDefs = []

  def subgraph(self, name=b"main"):
    sg = S.SubGraphT()
    sg.name = name
    sg.tensors = []
    sg.operators = []
    sg.inputs = []
    sg.outputs = []
    self.m.subgraphs.append(sg)
    return sg

  def opcode(self, code):
    for i, c in enumerate(self.m.operatorCodes):
      if c.builtinCode == code:
        return i
    c = S.OperatorCodeT()
    c.builtinCode = code
    c.deprecatedBuiltinCode = min(code, 127)
    c.version = 1
    self.m.operatorCodes.append(c)
    return len(self.m.operatorCodes) - 1

  def buffer(self, data=None):
    b = S.BufferT()
    if data is not None:
      b.data = np.frombuffer(np.ascontiguousarray(data).tobytes(), dtype=np.uint8)
    self.m.buffers.append(b)
    return len(self.m.buffers) - 1

  def tensor(self, sg, name, shape, data=None, ttype=TT.FLOAT32, buffer=None):
    t = S.TensorT()
    t.name = name.encode() if isinstance(name, str) else name
    t.shape = [int(x) for x in shape]
    t.type = ttype
    t.buffer = self.buffer(data) if buffer is None else buffer
    sg.tensors.append(t)
    return len(sg.tensors) - 1

  def op(self, sg, code, ins, outs, opts=None, optstype=0):
    o = S.OperatorT()
    o.opcodeIndex = self.opcode(code)
    o.inputs = [int(x) for x in ins]
    o.outputs = [int(x) for x in outs]
    if opts is not None:
      o.builtinOptions = opts
      o.builtinOptionsType = optstype
    sg.operators.append(o)
    return len(sg.operators) - 1

  def metadata(self, name, data):
    """A metadata entry (e.g. min_runtime_version): a named reference to a buffer that no tensor uses."""
    md = S.MetadataT()
    md.name = name.encode() if isinstance(name, str) else name
    md.buffer = self.buffer(np.frombuffer(bytes(data), np.uint8))
    if self.m.metadata is None:
      self.m.metadata = []
    self.m.metadata.append(md)
    return md.buffer

  def signature(self, key, sgidx, ins, outs):
    sd = S.SignatureDefT()
    sd.signatureKey = key.encode()
    sd.subgraphIndex = sgidx
    sd.inputs = []
    sd.outputs = []
    for n, i in ins:
      tm = S.TensorMapT()
      tm.name = n.encode()
      tm.tensorIndex = i
      sd.inputs.append(tm)
    for n, i in outs:
      tm = S.TensorMapT()
      tm.name = n.encode()
      tm.tensorIndex = i
      sd.outputs.append(tm)
    self.m.signatureDefs.append(sd)

  def bytes(self):
    return bytes(flatbuffer_utils.convert_object_to_bytearray(self.m))


def stateful_model(seed=0, second_fc=False):
  """x -> FULLY_CONNECTED -> RNN cell (hidden state in a variable tensor) [-> FULLY_CONNECTED] -> y.

  The RNN cell is outside the quantizer's operator table (stays float); its state tensor lives inside the interpreter
  between invocations, so the model is STATEFUL: its tensors after an invocation depend on the invocations before it on
  the same interpreter. Returns (bytes, dict(input name -> shape))."""
  rng = np.random.default_rng(seed)
  g = G(b"stateful")
  sg = g.subgraph()
  r = lambda *sh: (rng.integers(-8, 9, size=sh) / 8.0).astype(np.float32)
  x = g.tensor(sg, "x_in", [1, 4])
  w1 = g.tensor(sg, "fc1_w", [3, 4], r(3, 4))
  b1 = g.tensor(sg, "fc1_b", [3], r(3))
  h = g.tensor(sg, "fc1_out", [1, 3])
  rw = g.tensor(sg, "rnn_w", [2, 3], r(2, 3))
  rr = g.tensor(sg, "rnn_r", [2, 2], r(2, 2))
  rb = g.tensor(sg, "rnn_b", [2], r(2))
  st = g.tensor(sg, "rnn_state", [1, 2], buffer=0)
  sg.tensors[st].isVariable = True
  y = g.tensor(sg, "rnn_out", [1, 2])
  g.op(sg, B.FULLY_CONNECTED, [x, w1, b1], [h], opt(S.FullyConnectedOptionsT, keepNumDims=False), BO.FullyConnectedOptions)
  g.op(sg, B.RNN, [h, rw, rr, rb, st], [y], opt(S.RNNOptionsT, fusedActivationFunction=S.ActivationFunctionType.TANH), BO.RNNOptions)
  out = y
  if second_fc:
    w2 = g.tensor(sg, "fc2_w", [2, 2], r(2, 2))
    b2 = g.tensor(sg, "fc2_b", [2], r(2))
    out = g.tensor(sg, "fc2_out", [1, 2])
    g.op(sg, B.FULLY_CONNECTED, [y, w2, b2], [out], opt(S.FullyConnectedOptionsT, keepNumDims=False), BO.FullyConnectedOptions)
  sg.inputs = [x]
  sg.outputs = [out]
  g.signature("serving_default", 0, [("x0", x)], [("o0", out)])
  return g.bytes(), {"x0": [1, 4]}


def bool_mask_model(seed=0, with_const_mask=False):
  """x -> FULLY_CONNECTED -> h;  GREATER(h, c) -> mask (BOOL);  CAST(mask) -> f;  MUL(h, f) -> y: a model whose main subgraph holds
  a BOOL runtime tensor (and, optionally, a BOOL constant combined by LOGICAL_AND). Returns (bytes, dict(input name -> shape))."""
  rng = np.random.default_rng(seed)
  g = G(b"bool-mask")
  sg = g.subgraph()
  r = lambda *sh: (rng.integers(-8, 9, size=sh) / 8.0).astype(np.float32)
  x = g.tensor(sg, "x_in", [1, 4])
  w = g.tensor(sg, "fc_w", [3, 4], r(3, 4))
  b = g.tensor(sg, "fc_b", [3], r(3))
  h = g.tensor(sg, "fc_out", [1, 3])
  c = g.tensor(sg, "threshold", [1, 3], r(1, 3))
  m = g.tensor(sg, "greater_mask", [1, 3], ttype=TT.BOOL)
  g.op(sg, B.FULLY_CONNECTED, [x, w, b], [h], opt(S.FullyConnectedOptionsT, keepNumDims=False), BO.FullyConnectedOptions)
  g.op(sg, B.GREATER, [h, c], [m], S.GreaterOptionsT(), BO.GreaterOptions)
  if with_const_mask:
    km = g.tensor(sg, "keep_mask", [1, 3], np.array([[True, False, True]]), ttype=TT.BOOL)
    m2 = g.tensor(sg, "and_mask", [1, 3], ttype=TT.BOOL)
    g.op(sg, B.LOGICAL_AND, [m, km], [m2], S.LogicalAndOptionsT(), BO.LogicalAndOptions)
    m = m2
  f = g.tensor(sg, "mask_f32", [1, 3])
  g.op(sg, B.CAST, [m], [f], opt(S.CastOptionsT, inDataType=TT.BOOL, outDataType=TT.FLOAT32), BO.CastOptions)
  y = g.tensor(sg, "masked_out", [1, 3])
  g.op(sg, B.MUL, [h, f], [y], S.MulOptionsT(), BO.MulOptions)
  sg.inputs = [x]
  sg.outputs = [y]
  g.signature("serving_default", 0, [("x0", x)], [("o0", y)])
  return g.bytes(), {"x0": [1, 4]}


STATEFUL_CHAIN = {"ops": [{"kind": "FC", "ins": [0, 1, 2], "outs": [3]}, {"kind": "UNK", "ins": [3, 4, 5, 6, 7], "outs": [8]},
                          {"kind": "FC", "ins": [8, 9, 10], "outs": [11]}],
                  "trole": ["act", "w", "b", "act", "c", "c", "c", "var", "act", "w", "b", "act"], "gins": [0], "gouts": [11]}


def stateful_chain(seed=0):
  """STATEFUL_CHAIN as a model: x -> FULLY_CONNECTED -> RNN cell (state in a variable tensor) -> FULLY_CONNECTED -> y, tensors named
  as `build` names them. Returns (bytes, info) like `build`."""
  rng = np.random.default_rng(seed)
  g = G(b"stateful-chain")
  sg = g.subgraph()
  r = lambda *sh: (rng.integers(-8, 9, size=sh) / 8.0).astype(np.float32)
  shapes = [[1, 4], [3, 4], [3], [1, 3], [2, 3], [2, 2], [2], [1, 2], [1, 2], [2, 2], [2], [1, 2]]
  for t, sh in enumerate(shapes):
    role = STATEFUL_CHAIN["trole"][t]
    if role in ("w", "b", "c"):
      g.tensor(sg, tname(0, t), sh, r(*sh))
    else:
      g.tensor(sg, tname(0, t), sh, buffer=0)
  sg.tensors[7].isVariable = True
  g.op(sg, B.FULLY_CONNECTED, [0, 1, 2], [3], opt(S.FullyConnectedOptionsT, keepNumDims=False), BO.FullyConnectedOptions)
  g.op(sg, B.RNN, [3, 4, 5, 6, 7], [8], opt(S.RNNOptionsT, fusedActivationFunction=S.ActivationFunctionType.TANH), BO.RNNOptions)
  g.op(sg, B.FULLY_CONNECTED, [8, 9, 10], [11], opt(S.FullyConnectedOptionsT, keepNumDims=False), BO.FullyConnectedOptions)
  sg.inputs, sg.outputs = [0], [11]
  g.signature("serving_default", 0, [("x0", 0)], [("o0", 11)])
  info = {"names": [[tname(0, t) for t in range(len(shapes))]], "shapes": [shapes], "codes": [["FULLY_CONNECTED", "RNN", "FULLY_CONNECTED"]],
          "nt0": [len(shapes)], "nops0": [3]}
  return g.bytes(), info


INT32_TRANSPOSE = {"ops": [{"kind": "SAMEIN1", "ins": [0, 1], "outs": [2]}], "trole": ["act", "aux", "act"], "gins": [0], "gouts": [2]}


def int32_transpose(seed=0):
  """INT32_TRANSPOSE as a model: an int32 runtime tensor through TRANSPOSE (statistics are recorded for integer tensors of selected
  operators as well). Returns (bytes, info) like `build`."""
  g = G(b"int32-transpose")
  sg = g.subgraph()
  g.tensor(sg, tname(0, 0), [1, 2, 3], ttype=TT.INT32, buffer=0)
  g.tensor(sg, tname(0, 1), [3], np.array([0, 2, 1], np.int32), TT.INT32)
  g.tensor(sg, tname(0, 2), [1, 3, 2], ttype=TT.INT32, buffer=0)
  g.op(sg, B.TRANSPOSE, [0, 1], [2], S.TransposeOptionsT(), BO.TransposeOptions)
  sg.inputs, sg.outputs = [0], [2]
  g.signature("serving_default", 0, [("x0", 0)], [("o0", 2)])
  info = {"names": [[tname(0, t) for t in range(3)]], "shapes": [[[1, 2, 3], [3], [1, 3, 2]]], "codes": [["TRANSPOSE"]], "nt0": [3], "nops0": [1]}
  return g.bytes(), info


def scn_key(scn):
  return hashlib.sha256(json.dumps(scn, sort_keys=True).encode()).hexdigest()[:16]


def tname(si, t, nsub=1):
  """Unique tensor name; matches only itself under re.search in both scope encodings."""
  return ("t%02d_" % t) if nsub == 1 and si == 0 else ("s%dt%02d_" % (si, t))


class Unrealisable(Exception):
  pass


def _consumers(sub, t):
  return [i for i, o in enumerate(sub["ops"]) if t in o["ins"]]


def concretise(scn, seed=0):
  """Choose a concrete builtin operator for every op (deterministic in (scenario, seed)); returns codes."""
  if "codes" in scn:
    return scn["codes"]
  codes = []
  for si, sub in enumerate(scn["subs"]):
    cs = []
    # ops sharing a weight tensor/buffer must get the same concrete op (weight shapes differ per op)
    wgroup = {}
    for oi, o in enumerate(sub["ops"]):
      members = KIND_MEMBERS[o["kind"]]
      k = (seed + si * 7 + oi) % len(members)
      if o["kind"] == "FC":
        md = scn.get("mode", [[{}] * len(sub["ops"])] * len(scn["subs"]))[si][oi]
        if str(md.get("w", "-")).startswith("w4") or len(o["ins"]) < 3 or o["ins"][2] == -1:
          # 4-bit weights are only accepted for FULLY_CONNECTED by the default policy; the converter always gives
          # convolutions a bias (normal form), only FULLY_CONNECTED may come without one
          k = 0
        wt = o["ins"][1]
        g = sub.get("tbuf", [0] * len(sub["trole"]))[wt]
        key = ("g", g) if g else ("t", wt)
        if key in wgroup and wgroup[key] != k:
          if k == 0:
            raise Unrealisable("shared weight forced to FULLY_CONNECTED and used by a convolution")
          k = wgroup[key]
        wgroup[key] = k
      code = members[k]
      if code == "RSQRT" and o["ins"][0] not in sub["gins"]:
        code = "GELU"     # RSQRT only directly on a graph input (the harnesses feed positive data): no NaN activations
      cs.append(code)
    codes.append(cs)
  return codes


def _shapes(sub, codes):
  """Infer tensor shapes; universal activation shape [n,2,w,4] (concat on axis 0, split on axis 2)."""
  nt = len(sub["trole"])
  sh = {}
  for t in sub["gins"]:
    sh[t] = [1, 2, 2, 4]
  role = sub["trole"]
  for oi, o in enumerate(sub["ops"]):
    k, code = o["kind"], codes[oi]
    acts = [t for t in o["ins"] if t != -1 and role[t] == "act"]
    for t in acts:
      if t not in sh:
        raise Unrealisable("act %d used before produced" % t)
    if k == "EMB":
      sh[o["outs"][0]] = [4, 4]
      continue
    for t in acts:
      if len(sh[t]) != 4 and k not in ("EW1", "FIXSL", "FIXT", "UNSUP"):
        raise Unrealisable("non-NHWC operand")
    if k in ("EW2", "UNSUP2", "CONCAT", "CONCAT3"):
      # constants take the shape of the other operand's [1,2,w,4]
      ash = [sh[t] for t in acts]
      if not ash:
        raise Unrealisable("no activation operand")
      if k in ("CONCAT", "CONCAT3"):
        if len({tuple(s[1:]) for s in ash}) > 1:
          raise Unrealisable("concat of different inner shapes")
        n = sum(sh[t][0] if role[t] == "act" else 1 for t in o["ins"])
        sh[o["outs"][0]] = [n] + ash[0][1:]
      else:
        ns = [s[0] for s in ash]
        if len({n for n in ns if n != 1}) > 1:
          raise Unrealisable("broadcast batch")
        ws = [s[2] for s in ash]
        sh[o["outs"][0]] = [max(ns), 2, max(ws), 4]
      for t in o["ins"]:
        if role[t] == "c":
          # (a concatenation along axis 0 needs the other dimensions of its first activation operand, whatever they are)
          want = [1, 2, min(s[2] for s in ash), 4] if k in ("EW2", "UNSUP2") else [1] + list(ash[0][1:])
          if t in sh and sh[t] != want:
            raise Unrealisable("constant used under two shapes")
          sh[t] = want
    elif k == "SPLIT":
      a = acts[0]
      if sh[a][2] != 2:
        raise Unrealisable("split of already split tensor")
      for t in o["outs"]:
        sh[t] = [sh[a][0], 2, 1, 4]
    elif code == "MEAN":
      sh[o["outs"][0]] = sh[acts[0]][:3] + [1]
    elif code == "TRANSPOSE":
      s = sh[acts[0]]
      sh[o["outs"][0]] = [s[0], s[2], s[1], s[3]]
    else:
      if k in ("FC", "TCONV", "BMM", "BMMC") and sh[acts[0]][3] != 4:
        raise Unrealisable("channel dim")
      if code in ("TRANSPOSE",) and False:
        pass
      sh[o["outs"][0]] = list(sh[acts[0]])
    if code in ("CONV_2D", "DEPTHWISE_CONV_2D", "CONV_2D_TRANSPOSE", "AVERAGE_POOL_2D", "BATCH_MATMUL") and sh[acts[0]][1:3] not in ([2, 2], [2, 1]):
      raise Unrealisable("spatial shape")
  return sh


def const_values(rng, shape, kind="normal"):
  return rng.normal(size=shape).astype(np.float32)


def build(scn, seed=0, rng=None, const_fn=None, signatures=True, name_fn=None):
  """Returns (model bytes, info) where info has tensor names/shapes/codes; raises Unrealisable."""
  rng = rng or np.random.default_rng(seed)
  codes = concretise(scn, seed)
  g = G()
  nsub = len(scn["subs"])
  info = {"codes": codes, "names": [], "shapes": [], "nt0": [], "nops0": []}
  shared_buffers = {}
  for si, sub in enumerate(scn["subs"]):
    sg = g.subgraph(("main" if si == 0 else "sub%d" % si).encode())
    role = sub["trole"]
    tbuf = sub.get("tbuf", [0] * len(role))
    sh = _shapes(sub, codes[si])
    # weight/bias/aux shapes are dictated by the consuming concrete op
    cshape, cdata, ctype = {}, {}, {}
    for oi, o in enumerate(sub["ops"]):
      code = codes[si][oi]
      k = o["kind"]
      ins = o["ins"]

      def setc(t, shape, data=None, ty=TT.FLOAT32):
        if t == -1:
          return
        if t in cshape and list(cshape[t]) != list(shape):
          raise Unrealisable("constant %d used under two shapes" % t)
        cshape[t] = list(shape)
        if data is not None:
          cdata[t] = data
        ctype[t] = ty

      i32 = lambda v: np.array(v, np.int32)
      if k == "FC":
        wsh = {"FULLY_CONNECTED": [4, 4], "CONV_2D": [4, 3, 3, 4], "DEPTHWISE_CONV_2D": [1, 3, 3, 4]}[code]
        if role[ins[1]] != "w":
          raise Unrealisable("FC weight must be a weight constant")
        setc(ins[1], wsh)
        if len(ins) > 2 and ins[2] != -1:
          setc(ins[2], [4])
      elif k == "TCONV":
        a = ins[2]
        setc(ins[0], [4], i32(sh[a]), TT.INT32)
        setc(ins[1], [4, 3, 3, 4])
        if len(ins) > 3 and ins[3] != -1:
          setc(ins[3], [4])
      elif k == "BMM":
        if role[ins[1]] == "w":
          # the constant rhs has the lhs's rank or is a plain rank-2 matrix (broadcast over the batch dimensions); chosen per
          # weight tensor / buffer group like adj_y, so that sharers agree and a subgraph is built alike inside a pair and alone
          setc(ins[1], [4, 4] if (seed // 2 + (tbuf[ins[1]] or ins[1])) % 3 == 0 else [1, 2, 4, 4])
      elif k == "BMMC":
        # constant lhs [1, 2, w, w] x activation rhs [n, 2, w, 4] -> [n, 2, w, 4]
        setc(ins[0], [1, 2, sh[ins[1]][2], sh[ins[1]][2]])
      elif k == "EMB":
        setc(ins[0], [4], i32([0, 2, 1, 4]), TT.INT32)
        setc(ins[1], [5, 4])
      elif code == "MEAN":
        setc(ins[1], [1], i32([3]), TT.INT32)
      elif code == "RESHAPE":
        setc(ins[1], [4], i32(sh[o["outs"][0]]), TT.INT32)
      elif code == "TRANSPOSE":
        setc(ins[1], [4], i32([0, 2, 1, 3]), TT.INT32)
      elif code == "STRIDED_SLICE":
        s = sh[ins[0]]
        setc(ins[1], [4], i32([0, 0, 0, 0]), TT.INT32)
        setc(ins[2], [4], i32(s), TT.INT32)
        setc(ins[3], [4], i32([1, 1, 1, 1]), TT.INT32)
      elif k == "SPLIT":
        setc(ins[0], [], i32(2), TT.INT32)
    ids = []
    names = []
    shapes = []
    for t in range(len(role)):
      name = name_fn(si, t) if name_fn else tname(si, t, nsub)
      names.append(name)
      r = role[t]
      if r == "act":
        if t not in sh:
          raise Unrealisable("activation %d never produced" % t)
        ids.append(g.tensor(sg, name, sh[t]))
        shapes.append(sh[t])
        continue
      if r == "c":
        shape = sh.get(t)
        if shape is None:
          raise Unrealisable("unused generic constant")
      else:
        shape = cshape.get(t)
        if shape is None:
          raise Unrealisable("unused constant %d (%s)" % (t, r))
      ty = ctype.get(t, TT.FLOAT32)
      if t in cdata:
        data = cdata[t]
      elif const_fn is not None:
        data = const_fn(si, t, r, shape)
      else:
        data = const_values(rng, shape)
      buf = None
      if tbuf[t]:
        key = tbuf[t]
        if key in shared_buffers:
          buf, bshape = shared_buffers[key]
          if list(bshape) != list(shape):
            raise Unrealisable("buffer shared under two shapes")
        else:
          buf = g.buffer(data)
          shared_buffers[key] = (buf, shape)
      ids.append(g.tensor(sg, name, shape, data if buf is None else None, ty, buffer=buf))
      shapes.append(list(shape))
    for oi, o in enumerate(sub["ops"]):
      code = codes[si][oi]
      ins, outs = o["ins"], o["outs"]
      bc = CODE[code]
      if code == "FULLY_CONNECTED":
        g.op(sg, bc, ins, outs, opt(S.FullyConnectedOptionsT, keepNumDims=True), BO.FullyConnectedOptions)
      elif code == "CONV_2D":
        g.op(sg, bc, ins, outs, opt(S.Conv2DOptionsT, padding=S.Padding.SAME, strideW=1, strideH=1, dilationWFactor=1, dilationHFactor=1), BO.Conv2DOptions)
      elif code == "DEPTHWISE_CONV_2D":
        g.op(sg, bc, ins, outs, opt(S.DepthwiseConv2DOptionsT, padding=S.Padding.SAME, strideW=1, strideH=1, depthMultiplier=1, dilationWFactor=1, dilationHFactor=1), BO.DepthwiseConv2DOptions)
      elif code == "CONV_2D_TRANSPOSE":
        g.op(sg, bc, ins, outs, opt(S.TransposeConvOptionsT, padding=S.Padding.SAME, strideW=1, strideH=1), BO.TransposeConvOptions)
      elif code == "BATCH_MATMUL":
        # the constant rhs is square in its last two dimensions, so it can be used transposed (adj_y) or not
        # (chosen per weight tensor, so that operators sharing one weight use it the same way)
        # and independent of the subgraph's position, so that a subgraph is built identically inside a pair and alone)
        adjy = bool((seed + (tbuf[ins[1]] or ins[1])) % 2) and o["kind"] != "BMMC"
        info.setdefault("bmm_adjy", {})["%d,%d" % (si, oi)] = adjy
        g.op(sg, bc, ins, outs, opt(S.BatchMatMulOptionsT, adjX=False, adjY=adjy), BO.BatchMatMulOptions)
      elif code == "AVERAGE_POOL_2D":
        g.op(sg, bc, ins, outs, opt(S.Pool2DOptionsT, padding=S.Padding.SAME, strideW=1, strideH=1, filterWidth=2, filterHeight=2), BO.Pool2DOptions)
      elif code == "RESHAPE":
        g.op(sg, bc, ins, outs, opt(S.ReshapeOptionsT, newShape=list(sh[outs[0]])), BO.ReshapeOptions)
      elif code == "TRANSPOSE":
        g.op(sg, bc, ins, outs, S.TransposeOptionsT(), BO.TransposeOptions)
      elif code == "STRIDED_SLICE":
        g.op(sg, bc, ins, outs, S.StridedSliceOptionsT(), BO.StridedSliceOptions)
      elif code == "SOFTMAX":
        g.op(sg, bc, ins, outs, opt(S.SoftmaxOptionsT, beta=1.0), BO.SoftmaxOptions)
      elif code == "ADD":
        g.op(sg, bc, ins, outs, S.AddOptionsT(), BO.AddOptions)
      elif code == "SUB":
        g.op(sg, bc, ins, outs, S.SubOptionsT(), BO.SubOptions)
      elif code == "MUL":
        g.op(sg, bc, ins, outs, S.MulOptionsT(), BO.MulOptions)
      elif code == "MEAN":
        g.op(sg, bc, ins, outs, opt(S.ReducerOptionsT, keepDims=True), BO.ReducerOptions)
      elif code == "CONCATENATION":
        g.op(sg, bc, ins, outs, opt(S.ConcatenationOptionsT, axis=0), BO.ConcatenationOptions)
      elif code == "SPLIT":
        g.op(sg, bc, ins, outs, opt(S.SplitOptionsT, numSplits=2), BO.SplitOptions)
      else:
        g.op(sg, bc, ins, outs)
    sg.inputs = list(sub["gins"])
    sg.outputs = list(sub["gouts"])
    if signatures and si not in scn.get("nosig", ()):      # ("nosig": subgraphs that no signature def exports)
      key = "serving_default" if si == 0 else "sig%d" % si
      sins, souts = [("x%d" % i, t) for i, t in enumerate(sub["gins"])], [("o%d" % i, t) for i, t in enumerate(sub["gouts"])]
      if sub.get("sigrev"):      # the signature lists its entries in another order than the subgraph
        sins, souts = sins[::-1], souts[::-1]
      g.signature(key, si, sins, souts)
      if scn.get("sigalias") and si == 0:
        # a second signature def for the same subgraph (an alias key): legal, the interpreter serves both keys
        g.signature("alias0", si, sins, souts)
    info["names"].append(names)
    info["shapes"].append(shapes)
    info["nt0"].append(len(role))
    info["nops0"].append(len(sub["ops"]))
  # the signature table need not be in subgraph order (SignatureDef.subgraph_index says which subgraph is exported)
  tabrev = scn.get("sigtabrev")
  if tabrev is None:
    tabrev = (zlib.crc32(json.dumps(scn["subs"], sort_keys=True).encode()) + seed) % 2 == 1
  if signatures and len(scn["subs"]) > 1 and tabrev:
    g.m.signatureDefs = g.m.signatureDefs[::-1]
  return g.bytes(), info
