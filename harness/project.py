"""Projection of a .tflite flatbuffer onto the abstract observable state used by the TLA+ predicates.

Uses only the flatbuffer object API (tensorflow.lite.tools.flatbuffer_utils / ai_edge_litert schema), never the
library under verification.
"""
import hashlib

import numpy as np
from ai_edge_litert import schema_py_generated as S
from tensorflow.lite.tools import flatbuffer_utils

from harness import synth

DT = {0: "f32", 1: "f16", 2: "i32", 3: "u8", 4: "i64", 5: "str", 6: "bool", 7: "i16", 9: "i8", 17: "i4"}
BITS = {"f32": 32, "f16": 16, "i32": 32, "u8": 8, "i64": 64, "i16": 16, "i8": 8, "i4": 4, "bool": 8}


def _h(b):
  return hashlib.sha256(bytes(b)).hexdigest()[:12]


def _opts_hash(op):
  """Hash of the packed builtin options (so 'same options' is an equality of ids)."""
  o = op.builtinOptions
  if o is None:
    return "none"
  items = []
  for k in sorted(vars(o)):
    v = getattr(o, k)
    if isinstance(v, np.ndarray):
      v = v.tolist()
    items.append((k, repr(v)))
  return _h(repr((op.builtinOptionsType, items)).encode())


def read(model_bytes):
  return flatbuffer_utils.read_model_from_bytearray(bytes(model_bytes))


def project(model_bytes):
  """Full structural projection. Never raises on out-of-range indices: records them."""
  m = read(model_bytes)
  codes = []
  for c in (m.operatorCodes or []):
    bc = c.builtinCode
    if bc == 0 and c.deprecatedBuiltinCode:
      bc = c.deprecatedBuiltinCode
    codes.append(int(bc))
  nbuf = len(m.buffers or [])
  bufs = []
  for b in (m.buffers or []):
    if b.data is None:
      bufs.append({"len": -1, "sha": "none"})
    else:
      raw = bytes(b.data) if isinstance(b.data, (bytes, bytearray)) else np.asarray(b.data, dtype=np.uint8).tobytes()
      bufs.append({"len": len(raw), "sha": _h(raw)})
  subs = []
  for sg in (m.subgraphs or []):
    tens = []
    for t in (sg.tensors or []):
      q = t.quantization
      scale = list(np.asarray(q.scale, np.float32).tolist()) if q is not None and q.scale is not None else []
      zp = [int(z) for z in q.zeroPoint] if q is not None and q.zeroPoint is not None else []
      qd = int(q.quantizedDimension) if q is not None and q.quantizedDimension is not None else 0
      tens.append({
          "name": t.name.decode() if t.name is not None else "",
          "shape": [int(x) for x in (t.shape if t.shape is not None else [])],
          "sig": [int(x) for x in (t.shapeSignature if t.shapeSignature is not None else [])],
          "dt": DT.get(int(t.type), "other%d" % int(t.type)),
          "buf": int(t.buffer),
          "scale": scale, "zp": zp, "qd": qd,
      })
    ops = []
    for op in (sg.operators or []):
      ci = int(op.opcodeIndex)
      ops.append({
          "ci": ci,
          "code": codes[ci] if 0 <= ci < len(codes) else -1,
          "ins": [int(x) for x in (op.inputs if op.inputs is not None else [])],
          "outs": [int(x) for x in (op.outputs if op.outputs is not None else [])],
          "opts": _opts_hash(op),
      })
    subs.append({
        "name": sg.name.decode() if sg.name else "",
        "tensors": tens, "ops": ops,
        "gins": [int(x) for x in (sg.inputs if sg.inputs is not None else [])],
        "gouts": [int(x) for x in (sg.outputs if sg.outputs is not None else [])],
    })
  sigs = []
  for sd in (m.signatureDefs or []):
    sigs.append({
        "key": sd.signatureKey.decode() if sd.signatureKey else "",
        "sub": int(sd.subgraphIndex),
        "ins": [[tm.name.decode(), int(tm.tensorIndex)] for tm in (sd.inputs or [])],
        "outs": [[tm.name.decode(), int(tm.tensorIndex)] for tm in (sd.outputs or [])],
    })
  return {"ncodes": len(codes), "codes": codes, "nbuf": nbuf, "bufs": bufs, "subs": subs, "sigs": sigs}


def buffer_bytes(model_bytes, buf_idx):
  m = read(model_bytes)
  b = m.buffers[buf_idx]
  return None if b.data is None else np.asarray(b.data, dtype=np.uint8).tobytes()


Q_CODE = int(S.BuiltinOperator.QUANTIZE)
DQ_CODE = int(S.BuiltinOperator.DEQUANTIZE)


def param_classes(proj):
  """Assign an id to every distinct (dtype, scale, zp, qd) annotation: equality of parameters = equality of ids."""
  table = {}
  out = []
  for sub in proj["subs"]:
    row = []
    for t in sub["tensors"]:
      if not t["scale"]:
        row.append(0)
        continue
      key = (t["dt"], tuple(np.asarray(t["scale"], np.float32).tobytes()), tuple(t["zp"]), t["qd"] if len(t["scale"]) > 1 else 0)
      if key not in table:
        table[key] = len(table) + 1
      row.append(table[key])
    out.append(row)
  return out


def observe(scn, info, in_proj, out_proj):
  """Abstract observed state (one record per subgraph) for spec/Observed.tla and for exact comparison
  with the specification's predicted final state.

  Inserted operators are recognised structurally: QUANTIZE/DEQUANTIZE whose output tensor did not exist
  in the input model.
  """
  pcls = param_classes(out_proj)
  obs_subs = []
  for si, sub in enumerate(scn["subs"]):
    nt0 = len(in_proj["subs"][si]["tensors"])
    o = out_proj["subs"][si] if si < len(out_proj["subs"]) else None
    if o is None:
      obs_subs.append(None)
      continue
    ops = []
    orig = 0
    for op in o["ops"]:
      inserted = op["code"] in (Q_CODE, DQ_CODE) and len(op["outs"]) == 1 and op["outs"][0] >= nt0
      ops.append({
          "ins": op["ins"], "outs": op["outs"],
          "orig": -1 if inserted else orig,
          "qk": ("Q" if op["code"] == Q_CODE else "DQ") if inserted else "-",
          "code": op["code"], "opts": op["opts"], "ciok": 0 <= op["ci"] < out_proj["ncodes"],
      })
      if not inserted:
        orig += 1
    tens = o["tensors"]
    obs_subs.append({
        "ops": ops,
        "gins": o["gins"], "gouts": o["gouts"],
        "dt": [t["dt"] for t in tens],
        "pc": pcls[si],
        "nsc": [len(t["scale"]) for t in tens],
        "nzp": [len(t["zp"]) for t in tens],
        "zp0": [all(z == 0 for z in t["zp"]) for t in tens],
        "qd": [t["qd"] for t in tens],
        "names": [t["name"] for t in tens],
        "shapes": [t["shape"] for t in tens],
        "buf": [t["buf"] for t in tens],
        "bufok": [0 <= t["buf"] < out_proj["nbuf"] for t in tens],
        "buflen": [out_proj["bufs"][t["buf"]]["len"] if 0 <= t["buf"] < out_proj["nbuf"] else -2 for t in tens],
        "bufsha": [out_proj["bufs"][t["buf"]]["sha"] if 0 <= t["buf"] < out_proj["nbuf"] else "oob" for t in tens],
        "nt0": nt0,
    })
  return obs_subs
