"""Numeric conformance for C04 / C05 / C15: the specification's symbolic parameter terms are resolved against
on-grid statistics and constants, TLC (spec/QuantMathExt.tla) computes the exact expected zero points / scales and
judges the stored bytes; the harness compares the model annotations with TLC's expected values.
"""
import json
import os
from fractions import Fraction as F

import numpy as np

from harness import pipeline, project, synth, tlc

ACFG = {"a8a": (8, False), "a8s": (8, True), "a16": (16, True)}
WCFG = pipeline.WCFG
# quantised dimension the TFLite kernels expect for per-channel weights (TFLite quantisation spec; BATCH_MATMUL is not
# in the spec: the runtime kernel takes the last dimension of the (non-transposed) rhs)
KERNEL_QDIM = {"FULLY_CONNECTED": 0, "CONV_2D": 0, "DEPTHWISE_CONV_2D": 3, "CONV_2D_TRANSPOSE": 0, "EMBEDDING_LOOKUP": 0}


def grid_const(rng):
  def fn(si, t, role, shape):
    n = int(np.prod(shape)) if len(shape) else 1
    k = rng.integers(-16, 17, size=n)
    if role == "b":
      k = rng.integers(-12, 13, size=n)
    if n:
      k[rng.integers(0, n)] = rng.choice([-16, 16]) if role != "b" else 12     # make the range non-degenerate
    return (k.astype(np.float32) / 8).reshape(shape)
  return fn


def eqrange_const(rng):
  """On-grid weights whose slices along one (random) axis all span the same zero-inclusive width (15/8) at different offsets:
  per-channel parameters along that axis have EQUAL scales and DIFFERENT zero points under an asymmetric configuration
  (and, under a symmetric one, scales that differ only through the offset).  Biases / other constants as grid_const."""
  base = grid_const(rng)
  def fn(si, t, role, shape):
    if role != "w" or len(shape) < 2 or min(shape) < 1:
      return base(si, t, role, shape)
    ax = int(rng.integers(0, len(shape)))
    n = shape[ax]
    r0 = int(rng.integers(0, 16))
    a = np.moveaxis(np.zeros(shape, np.float32), ax, 0).copy()
    per = int(np.prod(a.shape[1:]))
    for i in range(n):
      k = (r0 + 5 * i) % 16                      # offsets: distinct for up to 16 slices
      v = rng.integers(0, 16, size=per)
      if per >= 2:
        j = rng.choice(per, size=2, replace=False)
        v[j[0]], v[j[1]] = 0, 15                  # both ends of the width are present
      a[i] = ((v - k).astype(np.float32) / 8).reshape(a.shape[1:])
    return np.ascontiguousarray(np.moveaxis(a, 0, ax))
  return fn


def tiny_const(rng):
  """grid_const with the last slice along axis 0 of every weight scaled by 2^-17 (below the 1e-4 range floor) and the last bias element ~2^-19."""
  base = grid_const(rng)
  def fn(si, t, role, shape):
    a = base(si, t, role, shape)
    if role == "w" and a.ndim >= 1 and a.shape[0] > 1:
      a[-1] = a[-1] * np.float32(2.0 ** -17)
    elif role == "b" and a.size > 1:
      a.reshape(-1)[-1] = np.float32(rng.integers(1, 13) * 2.0 ** -19) * rng.choice([-1, 1])
    return a
  return fn


def huge_const(rng):
  """grid_const with a few weight elements at and beyond the edge of the float16 range."""
  base = grid_const(rng)
  edge = np.array([65504.0, 65519.0, 65520.0, -65520.0, -1e5, 3e38, 1e-8, -65504.0], np.float32)
  def fn(si, t, role, shape):
    a = base(si, t, role, shape)
    if role == "w" and a.size >= 4:
      flat = a.reshape(-1)
      idx = rng.choice(flat.size, size=min(len(edge), flat.size // 2), replace=False)
      flat[idx] = edge[:len(idx)]
    return a
  return fn


def tinyw_const(rng):
  """tiny_const for the weights only: the bias keeps ordinary magnitudes, so its code under a 16-bit static config
  (scale = input scale x weight scale, both tiny) is far beyond the int32 range (it is stored as int64)."""
  base, tiny = grid_const(rng), tiny_const(rng)
  def fn(si, t, role, shape):
    return tiny(si, t, role, shape) if role == "w" else base(si, t, role, shape)
  return fn


def small_stats(scn, div=8):
  """pipeline.inject_stats divided by a power of two (still dyadic): input scales around 1e-3 (div 8) or, under 16-bit
  activations, around 4e-8 (div 1024), where neighbouring tensors' scales differ by less than 1e-8."""
  def fn(q, model, info):
    st = pipeline.inject_stats(scn, info)
    return {n: {k: (v / np.float32(div)) for k, v in e.items()} for n, e in st.items()}
  return fn


def frac(x):
  return F(float(x)).limit_denominator(1 << 20)


def big(n):
  """An integer as [sign, little-endian limbs base 2^15] (spec/BigNat.tla)."""
  sign, n, limbs = (n > 0) - (n < 0), abs(n), []
  while n:
    limbs.append(n % 32768)
    n //= 32768
  return [sign, limbs]


def pair(fr):
  return [fr.numerator, fr.denominator]


class Ctx:
  """Everything needed to resolve the parameter terms of one executed scenario."""

  def __init__(self, scn, impl):
    self.scn = scn
    self.info = impl["info"]
    self.stats = impl.get("cal") or {}
    self.in_model = project.read(impl["in_bytes"])
    self.out_model = project.read(impl["out_bytes"])
    self.out_proj = project.project(impl["out_bytes"])
    self.in_proj = project.project(impl["in_bytes"])

  def const_data(self, buf):
    """Original float data of the constant identified by the spec's buffer id [s, t] (or shared group [0, g])."""
    s, t = buf
    if s == 0:      # shared group: find any tensor of that group
      for si, sub in enumerate(self.scn["subs"]):
        for tt, g in enumerate(sub.get("tbuf", [])):
          if g == t:
            s, t = si + 1, tt
            break
        if s:
          break
    tensor = self.in_model.subgraphs[s - 1].tensors[t]
    raw = self.in_model.buffers[tensor.buffer].data
    return np.frombuffer(np.asarray(raw, np.uint8).tobytes(), np.float32).reshape(tensor.shape), s - 1, t

  def consumer_code(self, si, t):
    for oi, o in enumerate(self.scn["subs"][si]["ops"]):
      if t in o["ins"]:
        return self.info["codes"][si][oi], o
    return None, None

  def stat_range(self, stat):
    if stat[0] == "cal":
      name = self.info["names"][stat[1] - 1][stat[2]]
      q = self.stats[name]
      return frac(np.asarray(q["min"]).flatten()[0]), frac(np.asarray(q["max"]).flatten()[0])
    cl, a0 = stat[1], stat[2]
    bits0 = 16 if a0 == "a16" else 8
    sc0, zp0 = pipeline._fixed_params(cl, bits0)  # pylint: disable=protected-access
    qmin0, qmax0 = -(2 ** (bits0 - 1)), 2 ** (bits0 - 1) - 1
    mx = (qmax0 - zp0) * sc0
    mn = -mx if a0 in ("a8s", "a16") else (qmin0 - zp0) * sc0
    return mn, mx


def expected(term, ctx):
  """Spec parameter term -> description of the expected annotation: dict(kind, bits, sym, qd, ranges | table | bias parts)."""
  if term == ["none"]:
    return {"kind": "none"}
  h = term[0]
  if h == "FIXP":
    sc, zp = pipeline._fixed_params(term[1], term[2])  # pylint: disable=protected-access
    return {"kind": "fixed", "bits": term[2], "scale": sc, "zp": zp}
  if h == "P":
    bits, sym = ACFG[term[2]]
    mn, mx = ctx.stat_range(term[1])
    return {"kind": "uniform", "bits": bits, "sym": sym, "qd": None, "ranges": [(mn, mx)]}
  if h == "Wact":
    if len(term) > 3:       # constant operand of a same-as-output op under the (unrepaired) F13 behaviour is not modelled here
      return expected(term[3], ctx)
    data, si, t = ctx.const_data(term[1])
    bits, sym = ACFG[term[2]]
    return {"kind": "uniform", "bits": bits, "sym": sym, "qd": None, "ranges": [(frac(data.min()), frac(data.max()))], "data": data}
  if h == "W":
    data, si, t = ctx.const_data(term[1])
    bits, sym, gran = WCFG[term[2]]
    code, cop = ctx.consumer_code(si, t)
    if gran == "CHANNELWISE":
      if code == "BATCH_MATMUL":
        # output channels of the rhs: last dimension, or the one before it when the rhs is used transposed (adj_y)
        oi = ctx.scn["subs"][si]["ops"].index(cop)
        qd = data.ndim - 2 if ctx.info.get("bmm_adjy", {}).get("%d,%d" % (si, oi)) else data.ndim - 1
      else:
        qd = KERNEL_QDIM[code]
      red = tuple(d for d in range(data.ndim) if d != qd)
      mns, mxs = data.min(axis=red), data.max(axis=red)
      return {"kind": "uniform", "bits": bits, "sym": sym, "qd": qd, "ranges": [(frac(a), frac(b)) for a, b in zip(mns, mxs)], "data": data}
    return {"kind": "uniform", "bits": bits, "sym": sym, "qd": None, "ranges": [(frac(data.min()), frac(data.max()))], "data": data}
  if h == "B":
    data, si, t = ctx.const_data(term[1])
    return {"kind": "bias", "bits": 64 if term[2] == 16 else 32, "pin": expected(term[3], ctx), "pw": expected(term[4], ctx), "data": data}
  if h == "F16":
    data, si, t = ctx.const_data(term[1])
    return {"kind": "f16", "data": data}
  raise ValueError(term)


class Batch:
  """Collects vectors for one TLC run of QuantMathExt and gives back the outputs by id."""

  def __init__(self):
    self.vecs = []

  def add(self, v):
    v["id"] = len(self.vecs) + 1
    self.vecs.append(v)
    return v["id"]

  def zs(self, mn, mx, bits, sym):
    return self.add({"kind": "zs", "mn": pair(mn), "mx": pair(mx), "bits": bits, "sym": sym})

  def run(self, name):
    if not self.vecs:
      return {}, None
    path = os.path.join(tlc.WORK, name + "_vecs.json")
    os.makedirs(tlc.WORK, exist_ok=True)
    json.dump(self.vecs, open(path, "w"))
    r = tlc.run(name, "QuantMathExt", dict(GridN="1", XN="1"), constraints=["EmitE"], spec_name="SpecE", workers=8,
                env={"VEC_FILE": path}, extends="QuantMathExt", timeout=3600)
    out = {}
    for line in r.printed("OUT"):
      try:
        o = json.loads(json.loads(line[line.index(",") + 1:line.rindex(">>")].strip()))
        out[o["id"]] = o
      except Exception:  # pylint: disable=broad-except
        pass
    return out, r


def stored_codes(tensor_proj, raw, bits):
  """Little-endian integers assembled from the stored bytes (int8/16/32/64); int4 stays bytes (TLC unpacks nibbles)."""
  dt = {8: np.int8, 16: np.int16, 32: np.int32, 64: np.int64}[bits]
  usable = len(raw) - len(raw) % (bits // 8)
  return np.frombuffer(raw[:usable], dt)
