------------------------------ MODULE GraphWF ------------------------------
(***************************************************************************)
(* Well-formedness of ONE subgraph given as a plain record - the clauses of  *)
(* C01 that speak about indices, producers, execution order and names -     *)
(* independent of the vocabulary of Pipeline.tla, so that they can be       *)
(* evaluated on states of other rewrite specifications (Subchannel.tla) and  *)
(* on graphs projected from models the implementation returned.             *)
(*   g = [nt     |-> number of tensors (ids 0 .. nt-1),                      *)
(*        ops    |-> sequence of [code, ins, outs]  (-1 = omitted operand),  *)
(*        gins, gouts |-> sequences of tensor ids,                           *)
(*        consts |-> set of tensor ids backed by a non-empty buffer,         *)
(*        names  |-> sequence of names, names[t+1] is tensor t's]            *)
(***************************************************************************)
EXTENDS Integers, Sequences, FiniteSets

Rng(s) == {s[i] : i \in DOMAIN s}
Used(ins) == {x \in Rng(ins) : x # -1}
Tensors(g) == 0..(g.nt - 1)

InRange(g) ==
  /\ \A i \in DOMAIN g.ops : Used(g.ops[i].ins) \cup Rng(g.ops[i].outs) \subseteq Tensors(g)
  /\ Rng(g.gins) \cup Rng(g.gouts) \subseteq Tensors(g)
  /\ g.consts \subseteq Tensors(g)
  /\ Len(g.names) = g.nt

Producers(g, t) == {i \in DOMAIN g.ops : t \in Rng(g.ops[i].outs)}
SingleProducer(g) == \A t \in Tensors(g) : Cardinality(Producers(g, t)) <= 1

\* each operand is a graph input, a constant, or produced by an EARLIER operator
Topo(g) ==
  \A i \in DOMAIN g.ops : \A t \in Used(g.ops[i].ins) :
    t \in g.consts \/ t \in Rng(g.gins) \/ \E j \in 1..(i - 1) : t \in Rng(g.ops[j].outs)

NamesUnique(g) == \A a, b \in DOMAIN g.names : g.names[a] = g.names[b] => a = b

\* every graph output is computed (or is an input / a constant handed through)
OutputsProduced(g) == \A t \in Rng(g.gouts) : t \in Rng(g.gins) \/ t \in g.consts \/ Producers(g, t) # {}

WellFormed(g) == InRange(g) /\ SingleProducer(g) /\ Topo(g) /\ NamesUnique(g) /\ OutputsProduced(g)

Verdict(g) == [inrange |-> InRange(g),
               single  |-> InRange(g) => SingleProducer(g),
               topo    |-> InRange(g) => Topo(g),
               names   |-> NamesUnique(g),
               outs    |-> InRange(g) => OutputsProduced(g)]
=============================================================================
