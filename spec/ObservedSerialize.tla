-------------------------- MODULE ObservedSerialize --------------------------
(***************************************************************************)
(* code -> spec for C16: (offset, size) of every buffer and the file length *)
(* OBSERVED in the bytes the large-model path returned; TLC evaluates the   *)
(* layout clauses of Serialize.tla on them.  `has` / `want` come from the   *)
(* ordinary path's model (which buffers carry data and how many bytes);     *)
(* `same` = the selected bytes equal the embedded ones (a raw observation). *)
(***************************************************************************)
EXTENDS Integers, Sequences, FiniteSets, TLC, Json, IOUtils

Obs == JsonDeserialize(IOEnv.OBS_FILE)
VARIABLE tid
Cur == Obs[tid]
B == Cur.bufs
Data == {i \in 1..Len(B) : B[i].has /\ B[i].want > 0}

Verdict ==
  [id |-> Cur.id,
   aligned  |-> \A i \in Data : B[i].off % 16 = 0,
   inbounds |-> /\ Len(B) = Cur.nbuf_small
                /\ \A i \in Data : B[i].off > 1 /\ B[i].off + B[i].size <= Cur.total /\ B[i].size = B[i].want /\ B[i].inline = 0
                /\ \A i \in 1..Len(B) : ~B[i].has => (B[i].off <= 1 /\ B[i].size = 0),
   disjoint |-> \A i, j \in Data : i # j => (B[i].off + B[i].size <= B[j].off \/ B[j].off + B[j].size <= B[i].off),
   selects  |-> \A i \in 1..Len(B) : B[i].same,
   fields   |-> Cur.fields_equal,
   interp   |-> Cur.loads /\ Cur.interp_equal]

Init == tid \in 1..Len(Obs)
Next == UNCHANGED tid
Spec == Init /\ [][Next]_tid
Emit == PrintT(<<"VERDICT", ToJson(Verdict)>>)
=============================================================================
