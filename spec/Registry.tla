------------------------------ MODULE Registry ------------------------------
(***************************************************************************)
(* The algorithm registry behind every acceptance decision                  *)
(* (algorithm_manager_api.AlgorithmManagerApi): three dictionaries          *)
(*   algorithm -> (operator -> functions)      register_quantized_op        *)
(*   algorithm -> config check function        register_op_quant_config_... *)
(*   algorithm -> config check policy          register_config_check_policy *)
(* Python dict semantics: re-registering a key replaces the value and keeps *)
(* the key's position (get_supported_ops lists operators in the order of    *)
(* their FIRST registration).  Queries never change the state.              *)
(*                                                                         *)
(* check_op_quantization_config(alg, op, cfg):                               *)
(*   cfg.skip_checks            -> accepted without looking at anything     *)
(*   op not registered for alg  -> ValueError                                *)
(*   no check function for alg  -> ValueError                                *)
(*   no policy entry for alg    -> KeyError   (the code indexes the policy  *)
(*                                  dictionary; modelled as it is)          *)
(*   otherwise                  -> whatever the registered check function   *)
(*                                  decides under the registered policy     *)
(* C13 rests on this: a config is accepted for an operator exactly when the *)
(* LAST registered check function accepts it under the LAST registered      *)
(* policy (AcceptIffLastRegistered).                                        *)
(***************************************************************************)
EXTENDS Integers, Sequences, FiniteSets, TLC, Json

CONSTANTS Algs, Ops, Funcs,        \* algorithm keys, operator names, function tags
          Checks,                  \* check function tags; CheckAccepts[<<check, policy, op, cfg>>] says what each decides
          Policies, Cfgs, CheckAccepts,
          MaxLen

VARIABLES ops,      \* [Algs -> sequence of <<operator, function tag>>]  (insertion-ordered dictionary; <<>> = algorithm absent)
          present,  \* set of algorithms that have an entry in the algorithm registry
          check,    \* [Algs -> check tag or "none"]
          policy,   \* [Algs -> policy tag or "unset"]    ("unset": no entry at all; a registered None policy is the tag "None")
          hist
vars == <<ops, present, check, policy, hist>>
View == <<ops, present, check, policy>>

Idx(a, o) == IF \E k \in 1..Len(ops[a]) : ops[a][k][1] = o THEN CHOOSE k \in 1..Len(ops[a]) : ops[a][k][1] = o ELSE 0
IsOpRegistered(a, o) == a \in present /\ Idx(a, o) # 0
Supported(a) == [k \in 1..Len(ops[a]) |-> ops[a][k][1]]

RegOp(a, o, f) ==
  /\ ops' = [ops EXCEPT ![a] = IF Idx(a, o) = 0 THEN Append(@, <<o, f>>) ELSE [@ EXCEPT ![Idx(a, o)] = <<o, f>>]]
  /\ present' = present \cup {a}
  /\ UNCHANGED <<check, policy>> /\ hist' = Append(hist, <<"op", a, o, f>>)
RegCheck(a, c) == check' = [check EXCEPT ![a] = c] /\ UNCHANGED <<ops, present, policy>> /\ hist' = Append(hist, <<"check", a, c>>)
RegPolicy(a, p) == policy' = [policy EXCEPT ![a] = p] /\ UNCHANGED <<ops, present, check>> /\ hist' = Append(hist, <<"policy", a, p>>)

\* outcome of check_op_quantization_config in the current state
CheckOutcome(a, o, cfg) ==
  IF cfg = "skip" THEN "ok"
  ELSE IF ~IsOpRegistered(a, o) THEN "ValueError"
  ELSE IF check[a] = "none" THEN "ValueError"
  ELSE IF policy[a] = "unset" THEN "KeyError"
  ELSE IF CheckAccepts[<<check[a], policy[a], o, cfg>>] THEN "ok" ELSE "ValueError"
\* get_quantization_func / get_init_qsv_func
FuncOutcome(a, o) == IF IsOpRegistered(a, o) THEN ops[a][Idx(a, o)][2] ELSE "ValueError"
SupportedOutcome(a) == IF a \in present THEN Supported(a) ELSE <<"ValueError">>

Init == ops = [a \in Algs |-> <<>>] /\ present = {} /\ check = [a \in Algs |-> "none"] /\ policy = [a \in Algs |-> "unset"] /\ hist = <<>>
Next == /\ Len(hist) < MaxLen
        /\ \E a \in Algs : \/ \E o \in Ops, f \in Funcs : RegOp(a, o, f)
                           \/ \E c \in Checks : RegCheck(a, c)
                           \/ \E p \in Policies : RegPolicy(a, p)
Spec == Init /\ [][Next]_vars

\* ---- properties
NoDuplicateOps == \A a \in Algs : \A j, k \in 1..Len(ops[a]) : j # k => ops[a][j][1] # ops[a][k][1]
\* an operator keeps the position of its first registration
OrderStable == [][\A a \in Algs : \A k \in 1..Len(ops[a]) : k <= Len(ops'[a]) /\ ops'[a][k][1] = ops[a][k][1]]_vars
\* acceptance is decided by the last registered check function under the last registered policy, and by nothing else
AcceptIffLastRegistered ==
  \A a \in Algs, o \in Ops, cfg \in Cfgs \ {"skip"} :
    CheckOutcome(a, o, cfg) = "ok" <=> (IsOpRegistered(a, o) /\ check[a] # "none" /\ policy[a] # "unset" /\ CheckAccepts[<<check[a], policy[a], o, cfg>>])

\* ---- emitted once per reachable state: the full query table, for the spec -> code replay
Table == [hist |-> hist,
          isop |-> {<<a, o>> \in Algs \X Ops : IsOpRegistered(a, o)},
          isalg |-> present,
          supported |-> [a \in Algs |-> SupportedOutcome(a)],
          func |-> {<<a, o, FuncOutcome(a, o)>> : a \in Algs, o \in Ops},
          chk |-> {<<a, o, cfg, CheckOutcome(a, o, cfg)>> : a \in Algs, o \in Ops, cfg \in Cfgs}]
EmitR == PrintT(<<"REG", ToJson(Table)>>)
=============================================================================
