----------------------------- MODULE CalibTrace -----------------------------
(***************************************************************************)
(* Trace specification for Quantizer.calibrate(): the events of hook H3     *)
(* (calibrator.py: session start / end with the names that hold statistics  *)
(* or an empty entry, sample start with the length of the operator list,    *)
(* one event per operator whose statistics were folded, sample end),        *)
(* preceded for every call by a harness-level "call" event with the         *)
(* arguments, are validated against Calib.tla's actions:                    *)
(*   call       -> StartSession(prev, last, signature)                      *)
(*   start      -> (no action) the loaded / initialised dictionary          *)
(*   sample     -> SampleBegin, logged length = NOpsNow'                    *)
(*   op         -> OpStepAt(k) after silently stepping over the unselected  *)
(*                 operators before k; folded tensors = logged ones         *)
(*   sample_end -> the remaining (unselected) operators, then SampleEnd     *)
(*   end        -> SessionEnd, returned dictionary = logged                 *)
(* Tensor names are renamed to the specification's runtime-tensor ids by    *)
(* the harness (constants are dropped); nothing else is post-processed.     *)
(***************************************************************************)
EXTENDS Calib, IOUtils

Traces == JsonDeserialize(IOEnv.TRACE_FILE)    \* Traces[i] = [sel, selIn, selOut, events]
VARIABLES ti, l
tvars == <<vars, ti, l>>
Evs == Traces[ti].events
Ev == Evs[l]
IsEv(e) == l <= Len(Evs) /\ Ev.ev = e /\ l' = l + 1 /\ ti' = ti
AsSet(q) == {q[k] : k \in 1..Len(q)}
Filled(d) == {t \in Tensors : d[t] # Absent /\ d[t] # <<>>}
Empty(d) == {t \in Tensors : d[t] = <<>>}

TCall == IsEv("call") /\ nextS = Ev.first /\ StartSession(Ev.prev, Ev.last, Ev.sig)
TStart == IsEv("start") /\ pc = "session" /\ s = 0 /\ ioCopies = 0
          /\ Filled(cur) = AsSet(Ev.filled) /\ Empty(cur) = AsSet(Ev.empty) /\ UNCHANGED vars
TSample == IsEv("sample") /\ SampleBegin /\ sig = Ev.sub + 1 /\ NOpsNow' = Ev.nops
TOp == IsEv("op") /\ LET k == Ev.opi + 1 IN
         /\ opi <= k /\ k <= NOpsNow /\ \A j \in opi..(k-1) : ~OpAt(j).on
         /\ OpAt(k).on
         /\ OpStepAt(k)
         /\ updated' \ updated = AsSet(Ev.updated)
TSampleEnd == IsEv("sample_end") /\ pc = "session" /\ s # 0 /\ (\A j \in opi..NOpsNow : ~OpAt(j).on)
              /\ s' = 0 /\ opi' = 0
              /\ UNCHANGED <<sel, selIn, selOut, results, snap, base, cur, curAlias, nextS, sessEnd, sig, ioCopies, updated, pc>>
TEnd == IsEv("end") /\ SessionEnd /\ Filled(cur) = AsSet(Ev.filled) /\ Empty(cur) = AsSet(Ev.empty)

TraceNext == TCall \/ TStart \/ TSample \/ TOp \/ TSampleEnd \/ TEnd
TraceInit == \E i \in 1..Len(Traces) :
               /\ ti = i /\ l = 1
               /\ sel = Traces[i].sel /\ selIn = Traces[i].selIn /\ selOut = Traces[i].selOut
               /\ results = <<>> /\ snap = <<>> /\ base = <<>>
               /\ cur = [t \in Tensors |-> Absent] /\ curAlias = 0
               /\ nextS = 1 /\ sessEnd = 0 /\ sig = 1 /\ s = 0 /\ opi = 0 /\ ioCopies = 0 /\ updated = {} /\ pc = "idle"
TraceSpec == TraceInit /\ [][TraceNext]_tvars

Ended == (pc = "idle" /\ l > Len(Evs)) \/ ~ENABLED TraceNext
TVerdict == [ti |-> ti, consumed |-> l - 1, len |-> Len(Evs), pc |-> pc,
             accepted |-> (pc = "idle" /\ l - 1 = Len(Evs)),
             \* the property predicates on the state reconstructed from the trace
             exact |-> ExactFold, untouched |-> PrevUntouched, onlysel |-> OnlySelected]
EmitT == Ended => PrintT(<<"TVERDICT", ToJson(TVerdict)>>)
=============================================================================
