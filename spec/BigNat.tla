------------------------------- MODULE BigNat -------------------------------
(***************************************************************************)
(* Natural numbers beyond TLC's 32-bit integers, for the places where the   *)
(* exact arithmetic of QuantMathExt needs them (bias codes are 32/64-bit    *)
(* integers obtained by dividing by a product of two small scales).         *)
(* A number is a little-endian sequence of limbs in 0..Base-1 without       *)
(* leading zero limbs (<<>> is 0).  Base = 2^15, so that limb * limb + carry *)
(* stays below 2^31.                                                        *)
(***************************************************************************)
EXTENDS Integers, Sequences

Base == 32768

RECURSIVE BNorm(_)
BNorm(a) == IF a = <<>> THEN <<>> ELSE IF a[Len(a)] = 0 THEN BNorm(SubSeq(a, 1, Len(a) - 1)) ELSE a
\* 0 <= n < 2^31
BFromInt(n) == BNorm(<<n % Base, (n \div Base) % Base, n \div (Base * Base)>>)

RECURSIVE BAddC(_, _, _)
BAddC(a, b, c) ==
  IF a = <<>> /\ b = <<>> THEN (IF c = 0 THEN <<>> ELSE <<c>>)
  ELSE LET x == (IF a = <<>> THEN 0 ELSE Head(a)) + (IF b = <<>> THEN 0 ELSE Head(b)) + c
       IN <<x % Base>> \o BAddC(IF a = <<>> THEN <<>> ELSE Tail(a), IF b = <<>> THEN <<>> ELSE Tail(b), x \div Base)
BAdd(a, b) == BAddC(a, b, 0)

\* a * m for one limb m (0 <= m < Base)
RECURSIVE BMulLimbC(_, _, _)
BMulLimbC(a, m, c) == IF a = <<>> THEN (IF c = 0 THEN <<>> ELSE <<c>>)
                      ELSE LET x == Head(a) * m + c IN <<x % Base>> \o BMulLimbC(Tail(a), m, x \div Base)
BMulLimb(a, m) == IF m = 0 THEN <<>> ELSE BMulLimbC(a, m, 0)
BShift(a, k) == IF a = <<>> THEN <<>> ELSE [i \in 1..k |-> 0] \o a
RECURSIVE BMulFrom(_, _, _)
BMulFrom(a, b, j) == IF j > Len(b) THEN <<>> ELSE BAdd(BShift(BMulLimb(a, b[j]), j - 1), BMulFrom(a, b, j + 1))
BMul(a, b) == BNorm(BMulFrom(a, b, 1))
BMulInt(a, n) == BMul(a, BFromInt(n))

\* -1, 0, 1
RECURSIVE BCmpFrom(_, _, _)
BCmpFrom(a, b, i) == IF i = 0 THEN 0 ELSE IF a[i] < b[i] THEN -1 ELSE IF a[i] > b[i] THEN 1 ELSE BCmpFrom(a, b, i - 1)
BCmp(a, b) == IF Len(a) < Len(b) THEN -1 ELSE IF Len(a) > Len(b) THEN 1 ELSE BCmpFrom(a, b, Len(a))
BLe(a, b) == BCmp(a, b) <= 0

\* a - b for a >= b
RECURSIVE BSubC(_, _, _)
BSubC(a, b, br) ==
  IF a = <<>> THEN <<>>
  ELSE LET x == Head(a) - (IF b = <<>> THEN 0 ELSE Head(b)) - br
       IN <<IF x < 0 THEN x + Base ELSE x>> \o BSubC(Tail(a), IF b = <<>> THEN <<>> ELSE Tail(b), IF x < 0 THEN 1 ELSE 0)
BSub(a, b) == BNorm(BSubC(a, b, 0))
BAbsDiff(a, b) == IF BLe(b, a) THEN BSub(a, b) ELSE BSub(b, a)
=============================================================================
