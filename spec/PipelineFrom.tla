---------------------------- MODULE PipelineFrom ----------------------------
(***************************************************************************)
(* Pipeline.tla started on GIVEN scenarios instead of the build phase: the  *)
(* scenarios (float graph, resolved modes) of executions that did not come  *)
(* from TLC - seeded random larger graphs, graphs projected from real       *)
(* .tflite files - are loaded from JSON, the specification's machine runs   *)
(* on each of them, and the terminal state (outcome, raise site, operator   *)
(* list, wiring, dtypes, names, parameter terms) is dumped so that the      *)
(* implementation's execution can be validated against it state by state.   *)
(***************************************************************************)
EXTENDS Pipeline, IOUtils

Scns == JsonDeserialize(IOEnv.SCN_FILE)      \* sequence of scenarios

InitFromIdx(i) ==
  /\ nbufg = 0 /\ pc = "mat" /\ why = "none"
  /\ order = <<>> /\ bufw = <<>> /\ qi = 0 /\ insts = <<>>
  /\ LET S == Scns[i]  G1 == S.subs IN
       /\ G = G1 /\ mode = S.mode /\ inmode = S.inmode /\ outmode = S.outmode
       /\ qsv = [s \in 1..Len(G1) |-> [t \in 1..Len(G1[s].trole) |-> <<"cal", s, t-1>>]]
       /\ prod = [s \in 1..Len(G1) |-> [t \in 1..Len(G1[s].trole) |-> NoEntry]]
       /\ cons = [s \in 1..Len(G1) |-> [t \in 1..Len(G1[s].trole) |-> <<>>]]
       /\ R = [s \in 1..Len(G1) |->
                [ops |-> [k \in 1..Len(G1[s].ops) |-> [ins |-> G1[s].ops[k].ins, outs |-> G1[s].ops[k].outs, orig |-> k-1, qk |-> "-"]],
                 outs |-> G1[s].gouts, sigout |-> SigOuts(G1[s]),
                 dt |-> [t \in 1..Len(G1[s].trole) |-> IF G1[s].trole[t] = "aux" THEN "i32" ELSE "f32"],
                 par |-> [t \in 1..Len(G1[s].trole) |-> NoPar],
                 nm |-> [t \in 1..Len(G1[s].trole) |-> <<t-1>>],
                 shp |-> G1[s].tsh, ntens |-> Len(G1[s].trole),
                 omap |-> [k \in 1..Len(G1[s].ops) |-> k-1], amap |-> <<>>]]
InitFrom == \E i \in 1..Len(Scns) : InitFromIdx(i)
SpecFrom == InitFrom /\ [][Run \/ Stutter]_vars
=============================================================================
