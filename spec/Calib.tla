------------------------------- MODULE Calib -------------------------------
(***************************************************************************)
(* Quantizer.calibrate() over resumed sessions (M4 of DESIGN; calibrator.py, *)
(* calibration_utils.py).  Statistics are kept SYMBOLICALLY as the sequence  *)
(* of sample ids folded so far (the exponential moving average is a left     *)
(* fold, first sample initialises), so "exact, order-faithful, resumable" is *)
(*     result[t] = samples of the base result \o samples of this session    *)
(* for every runtime tensor of a selected operator, whatever the split into  *)
(* sessions, and "previous result untouched" is an invariant of the heap of  *)
(* caller-owned results.                                                     *)
(* Modelled as the code does it: a new Calibrator per call, load = deep copy,*)
(* initialisation only if empty (constants get their statistics there),      *)
(* per sample the operator list grows by one more pair of virtual I/O        *)
(* operators (harmless because of the per-sample `updated` set - a guard     *)
(* this model makes observable), one fold per tensor and sample.             *)
(***************************************************************************)
EXTENDS Integers, Sequences, FiniteSets, TLC, Json

CONSTANTS
  Ops,          \* seq of [ins, outs]: runtime tensor ids of the operators of the calibrated subgraph (constants omitted)
  GIns, GOuts,  \* graph inputs / outputs (virtual INPUT / OUTPUT operators)
  NT,           \* number of runtime tensors (ids 0..NT-1)
  NSamples,     \* dataset 1..NSamples, consumed in order
  MaxSessions,
  Fixes         \* "deepcopy": load copies the previous result (present in the code); absent => aliasing, for the self-test
                \* "once": per-sample updated set (present in the code)

Tensors == 0..(NT-1)
Absent == <<-1>>          \* tensor has no entry in the dictionary
NoPrev == 0

VARIABLES
  sel,        \* which operators are selected (quantised by the recipe): [1..Len(Ops) -> BOOLEAN], plus selIn/selOut for the virtual ops
  selIn, selOut,
  results,    \* caller-owned heap: seq of calibration results (each a function tensor -> fold sequence or Absent)
  snap,       \* ghost: value of every result when it was returned
  base,       \* ghost: for every result, <<index of the result it resumed from, first sample, last sample>>
  cur,        \* the running Calibrator's _model_qsvs
  curAlias,   \* index of the caller-owned result that `cur` aliases (0 = none); only without the "deepcopy" fix
  nextS,      \* next unconsumed sample
  sessEnd,    \* last sample of the running session
  s,          \* sample being processed (0 = between samples)
  opi,        \* position in the operator list of the current sample
  ioCopies,   \* how many pairs of virtual I/O operators the operator list holds by now
  updated,    \* per-sample set of tensors already folded
  pc
vars == <<sel, selIn, selOut, results, snap, base, cur, curAlias, nextS, sessEnd, s, opi, ioCopies, updated, pc>>

SeqRange(q) == {q[k] : k \in 1..Len(q)}
Mentions(o) == SeqRange(o.ins) \cup SeqRange(o.outs)
\* the operator list seen while processing a sample: real operators, then ioCopies x (INPUT, OUTPUT)
OpAt(k) == IF k <= Len(Ops) THEN [tens |-> Mentions(Ops[k]), on |-> sel[k]]
           ELSE IF (k - Len(Ops)) % 2 = 1 THEN [tens |-> SeqRange(GIns), on |-> selIn]
           ELSE [tens |-> SeqRange(GOuts), on |-> selOut]
NOpsNow == Len(Ops) + 2 * ioCopies
\* runtime tensors of selected operators: the ones that must carry statistics
Selected == UNION {Mentions(Ops[k]) : k \in {k \in 1..Len(Ops) : sel[k]}}
            \cup (IF selIn THEN SeqRange(GIns) ELSE {}) \cup (IF selOut THEN SeqRange(GOuts) ELSE {})
\* _initialize_model_qsvs walks the real operators only (no virtual ops yet): empty statistics for their runtime tensors
InitQsvs == [t \in Tensors |-> IF t \in UNION {Mentions(Ops[k]) : k \in {k \in 1..Len(Ops) : sel[k]}} THEN <<>> ELSE Absent]
IsEmptyDict(d) == \A t \in Tensors : d[t] = Absent

Init ==
  /\ sel \in [1..Len(Ops) -> BOOLEAN] /\ selIn \in BOOLEAN /\ selOut \in BOOLEAN
  /\ results = <<>> /\ snap = <<>> /\ base = <<>>
  /\ cur = [t \in Tensors |-> Absent] /\ curAlias = 0
  /\ nextS = 1 /\ sessEnd = 0 /\ s = 0 /\ opi = 0 /\ ioCopies = 0 /\ updated = {} /\ pc = "idle"

\* Quantizer.calibrate(data = samples nextS..last, previous_calibration_result = results[prev] or None)
StartSession(prev, last) ==
  /\ pc = "idle" /\ Len(results) < MaxSessions /\ nextS <= NSamples /\ last \in nextS..NSamples
  /\ prev \in 0..Len(results)
  /\ LET loaded == IF prev = NoPrev THEN [t \in Tensors |-> Absent] ELSE results[prev]
     IN /\ cur' = IF IsEmptyDict(loaded) THEN InitQsvs ELSE loaded
        /\ curAlias' = IF prev # NoPrev /\ "deepcopy" \notin Fixes /\ ~IsEmptyDict(loaded) THEN prev ELSE 0
  /\ base' = Append(base, <<prev, nextS, last>>)
  /\ sessEnd' = last /\ s' = 0 /\ opi' = 0 /\ ioCopies' = 0 /\ updated' = {} /\ pc' = "session"
  /\ UNCHANGED <<sel, selIn, selOut, results, snap, nextS>>

SampleBegin ==
  /\ pc = "session" /\ s = 0 /\ nextS <= sessEnd
  /\ s' = nextS /\ nextS' = nextS + 1 /\ updated' = {} /\ ioCopies' = ioCopies + 1 /\ opi' = 1
  /\ UNCHANGED <<sel, selIn, selOut, results, snap, base, cur, curAlias, sessEnd, pc>>

\* one operator of the list: fold the sample into every runtime tensor of the operator not yet folded this sample
Fold(d, ts) == [t \in Tensors |-> IF t \in ts THEN (IF d[t] = Absent THEN <<s>> ELSE Append(d[t], s)) ELSE d[t]]
OpStep ==
  /\ pc = "session" /\ s # 0 /\ opi <= NOpsNow
  /\ LET o == OpAt(opi)
         ts == IF o.on THEN (IF "once" \in Fixes THEN o.tens \ updated ELSE o.tens) ELSE {}
     IN /\ cur' = Fold(cur, ts)
        /\ updated' = updated \cup ts
        \* without the deep copy the caller's previous result is the same object
        /\ results' = IF curAlias # 0 THEN [results EXCEPT ![curAlias] = Fold(@, ts)] ELSE results
  /\ opi' = opi + 1
  /\ UNCHANGED <<sel, selIn, selOut, snap, base, curAlias, nextS, sessEnd, s, ioCopies, pc>>

SampleEnd ==
  /\ pc = "session" /\ s # 0 /\ opi > NOpsNow
  /\ s' = 0 /\ opi' = 0
  /\ UNCHANGED <<sel, selIn, selOut, results, snap, base, cur, curAlias, nextS, sessEnd, ioCopies, updated, pc>>

\* calib.get_model_qsvs() is handed to the caller
SessionEnd ==
  /\ pc = "session" /\ s = 0 /\ nextS > sessEnd
  /\ results' = Append(results, cur) /\ snap' = Append(snap, cur)
  /\ pc' = "idle" /\ curAlias' = 0
  /\ UNCHANGED <<sel, selIn, selOut, base, cur, nextS, sessEnd, s, opi, ioCopies, updated>>

Stutter == pc = "idle" /\ (Len(results) = MaxSessions \/ nextS > NSamples) /\ UNCHANGED vars
Next == (\E prev \in 0..MaxSessions, last \in 1..NSamples : StartSession(prev, last))
        \/ SampleBegin \/ OpStep \/ SampleEnd \/ SessionEnd \/ Stutter
Spec == Init /\ [][Next]_vars

\* ------------------------------------------------------------------ C09
Range(a, b) == [k \in 1..(b - a + 1) |-> a + k - 1]
RECURSIVE Expected(_, _)
\* the fold sequence result r must carry for tensor t
Expected(r, t) == LET b == base[r] IN
                  (IF b[1] = NoPrev \/ snap[b[1]][t] = Absent THEN <<>> ELSE Expected(b[1], t)) \o Range(b[2], b[3])
\* exact and order-faithful: every selected runtime tensor has folded exactly the samples of its history, in order, each once
ExactFold == \A r \in 1..Len(results) : \A t \in Selected : results[r][t] = Expected(r, t)
\* resumable: a result resumed from r0 extends r0's statistics (prefix), never restarts
Resumes == \A r \in 1..Len(results) : base[r][1] # NoPrev =>
             \A t \in Selected : snap[base[r][1]][t] # Absent =>
                /\ Len(results[r][t]) >= Len(snap[base[r][1]][t])
                /\ SubSeq(results[r][t], 1, Len(snap[base[r][1]][t])) = snap[base[r][1]][t]
\* the previous result passed in is not modified (caller-owned objects keep the value they had when returned)
PrevUntouched == \A r \in 1..Len(results) : results[r] = snap[r]
\* only tensors of selected operators get statistics
OnlySelected == \A r \in 1..Len(results) : \A t \in Tensors : results[r][t] # Absent => t \in Selected

\* ---- behaviours for the spec -> code replay: emitted when a behaviour is complete
Behaviour == [sel |-> sel, selIn |-> selIn, selOut |-> selOut, base |-> base,
              results |-> [r \in 1..Len(results) |-> [t \in Tensors |-> results[r][t]]]]
EmitB == (pc = "idle" /\ Len(results) >= 1 /\ (Len(results) = MaxSessions \/ nextS > NSamples))
           => PrintT(<<"BEHAV", ToJson(Behaviour)>>)
=============================================================================
