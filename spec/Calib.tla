------------------------------- MODULE Calib -------------------------------
(***************************************************************************)
(* Quantizer.calibrate() over resumed sessions (M4 of DESIGN; calibrator.py, *)
(* calibration_utils.py).  Statistics are kept SYMBOLICALLY as the sequence  *)
(* of sample ids folded so far (the exponential moving average is a left     *)
(* fold, first sample initialises), so "exact, order-faithful, resumable" is *)
(*     result[t] = samples of the base result \o samples of this session    *)
(* for every runtime tensor of a selected operator, whatever the split into  *)
(* sessions, and "previous result untouched" is an invariant of the heap of  *)
(* caller-owned results.                                                     *)
(* A model may have several signatures (one subgraph each): a session        *)
(* calibrates ONE signature, only that subgraph's tensors are folded, the    *)
(* tensors of the other subgraphs keep the (possibly still empty) entry they *)
(* had.  A session may also run on an EMPTY dataset: its result holds the    *)
(* empty placeholders created at initialisation.                             *)
(* Modelled as the code does it: a new Calibrator per call, load = deep copy,*)
(* initialisation only if empty (constants get their statistics there),      *)
(* per sample the operator list grows by one more pair of virtual I/O        *)
(* operators (harmless because of the per-sample `updated` set - a guard     *)
(* this model makes observable), one fold per tensor and sample.             *)
(***************************************************************************)
EXTENDS Integers, Sequences, FiniteSets, TLC, Json

CONSTANTS
  Ops,          \* seq of [ins, outs, sub]: runtime tensor ids of the operators (constants omitted) and the subgraph they belong to
  GIns, GOuts,  \* per subgraph: graph inputs / outputs (virtual INPUT / OUTPUT operators)
  NT,           \* number of runtime tensors (ids 0..NT-1)
  NSamples,     \* dataset 1..NSamples, consumed in order
  MaxSessions,
  Fixes         \* "deepcopy": load copies the previous result (present in the code); absent => aliasing, for the self-test
                \*             (with "shallow": only the outer dictionary is copied and the first sample is written INTO an empty entry)
                \* "once": per-sample updated set (present in the code)

Tensors == 0..(NT-1)
Absent == <<-1>>          \* tensor has no entry in the dictionary
NoPrev == 0

VARIABLES
  sel,        \* which operators are selected (quantised by the recipe): [1..Len(Ops) -> BOOLEAN], plus selIn/selOut for the virtual ops
  selIn, selOut,
  results,    \* caller-owned heap: seq of calibration results (each a function tensor -> fold sequence or Absent)
  snap,       \* ghost: value of every result when it was returned
  base,       \* ghost: for every result, <<index of the result it resumed from, first sample, last sample (first-1: empty), signature>>
  cur,        \* the running Calibrator's _model_qsvs
  curAlias,   \* index of the caller-owned result that `cur` aliases (0 = none); only without the "deepcopy" fix
  nextS,      \* next unconsumed sample
  sessEnd,    \* last sample of the running session
  sig,        \* signature (= subgraph) the running session calibrates
  s,          \* sample being processed (0 = between samples)
  opi,        \* position in the operator list of the current sample
  ioCopies,   \* how many pairs of virtual I/O operators the operator list holds by now
  updated,    \* per-sample set of tensors already folded
  pc
vars == <<sel, selIn, selOut, results, snap, base, cur, curAlias, nextS, sessEnd, sig, s, opi, ioCopies, updated, pc>>
NSig == Len(GIns)

SeqRange(q) == {q[k] : k \in 1..Len(q)}
Mentions(o) == SeqRange(o.ins) \cup SeqRange(o.outs)
\* the operator list of the calibrated subgraph seen while processing a sample: its real operators, then ioCopies x (INPUT, OUTPUT)
OpsOf(g) == SelectSeq([k \in 1..Len(Ops) |-> k], LAMBDA k : Ops[k].sub = g)
OpAt(k) == LET mine == OpsOf(sig) IN
           IF k <= Len(mine) THEN [tens |-> Mentions(Ops[mine[k]]), on |-> sel[mine[k]]]
           ELSE IF (k - Len(mine)) % 2 = 1 THEN [tens |-> SeqRange(GIns[sig]), on |-> selIn]
           ELSE [tens |-> SeqRange(GOuts[sig]), on |-> selOut]
NOpsNow == Len(OpsOf(sig)) + 2 * ioCopies
\* runtime tensors of the selected real operators (of every subgraph): they get an (empty) entry at initialisation
RealSelected == UNION {Mentions(Ops[k]) : k \in {k \in 1..Len(Ops) : sel[k]}}
\* runtime tensors of selected operators: the ones that must carry statistics once their signature has been calibrated
Selected == RealSelected \cup (IF selIn THEN UNION {SeqRange(GIns[g]) : g \in 1..NSig} ELSE {})
                         \cup (IF selOut THEN UNION {SeqRange(GOuts[g]) : g \in 1..NSig} ELSE {})
\* subgraph a runtime tensor belongs to
SubOf(t) == CHOOSE g \in 1..NSig : t \in SeqRange(GIns[g]) \cup UNION {Mentions(Ops[k]) : k \in {k \in 1..Len(Ops) : Ops[k].sub = g}}
\* _initialize_model_qsvs walks the real operators of all subgraphs (no virtual ops yet): empty statistics for their runtime tensors
InitQsvs == [t \in Tensors |-> IF t \in RealSelected THEN <<>> ELSE Absent]
IsEmptyDict(d) == \A t \in Tensors : d[t] = Absent

Init ==
  /\ sel \in [1..Len(Ops) -> BOOLEAN] /\ selIn \in BOOLEAN /\ selOut \in BOOLEAN
  /\ results = <<>> /\ snap = <<>> /\ base = <<>>
  /\ cur = [t \in Tensors |-> Absent] /\ curAlias = 0
  /\ nextS = 1 /\ sessEnd = 0 /\ sig = 1 /\ s = 0 /\ opi = 0 /\ ioCopies = 0 /\ updated = {} /\ pc = "idle"

\* Quantizer.calibrate(data = samples nextS..last (none when last = nextS - 1), signature_key = g,
\*                     previous_calibration_result = results[prev] or None)
StartSession(prev, last, g) ==
  /\ pc = "idle" /\ Len(results) < MaxSessions /\ last \in (nextS - 1)..NSamples
  /\ prev \in 0..Len(results)
  /\ LET loaded == IF prev = NoPrev THEN [t \in Tensors |-> Absent] ELSE results[prev]
     IN /\ cur' = IF IsEmptyDict(loaded) THEN InitQsvs ELSE loaded
        /\ curAlias' = IF prev # NoPrev /\ "deepcopy" \notin Fixes /\ ~IsEmptyDict(loaded) THEN prev ELSE 0
  /\ base' = Append(base, <<prev, nextS, last, g>>)
  /\ sessEnd' = last /\ sig' = g /\ s' = 0 /\ opi' = 0 /\ ioCopies' = 0 /\ updated' = {} /\ pc' = "session"
  /\ UNCHANGED <<sel, selIn, selOut, results, snap, nextS>>

SampleBegin ==
  /\ pc = "session" /\ s = 0 /\ nextS <= sessEnd
  /\ s' = nextS /\ nextS' = nextS + 1 /\ updated' = {} /\ ioCopies' = ioCopies + 1 /\ opi' = 1
  /\ UNCHANGED <<sel, selIn, selOut, results, snap, base, cur, curAlias, sessEnd, sig, pc>>

\* one operator of the list: fold the sample into every runtime tensor of the operator not yet folded this sample
Fold(d, ts) == [t \in Tensors |-> IF t \in ts THEN (IF d[t] = Absent THEN <<s>> ELSE Append(d[t], s)) ELSE d[t]]
OpStepAt(k) ==
  /\ pc = "session" /\ s # 0 /\ k <= NOpsNow
  /\ LET o == OpAt(k)
         ts == IF o.on THEN (IF "once" \in Fixes THEN o.tens \ updated ELSE o.tens) ELSE {}
     IN /\ cur' = Fold(cur, ts)
        /\ updated' = updated \cup ts
        \* without the deep copy the caller's previous result is the same object; with only a shallow copy the inner
        \* dictionaries are shared, and an entry that is still empty receives its first sample in place
        /\ results' = IF curAlias = 0 THEN results
                       ELSE IF "shallow" \in Fixes THEN [results EXCEPT ![curAlias] = Fold(@, {t \in ts : cur[t] = <<>> /\ @[t] = <<>>})]
                       ELSE [results EXCEPT ![curAlias] = Fold(@, ts)]
  /\ opi' = k + 1
  /\ UNCHANGED <<sel, selIn, selOut, snap, base, curAlias, nextS, sessEnd, sig, s, ioCopies, pc>>
OpStep == OpStepAt(opi)

SampleEnd ==
  /\ pc = "session" /\ s # 0 /\ opi > NOpsNow
  /\ s' = 0 /\ opi' = 0
  /\ UNCHANGED <<sel, selIn, selOut, results, snap, base, cur, curAlias, nextS, sessEnd, sig, ioCopies, updated, pc>>

\* calib.get_model_qsvs() is handed to the caller
SessionEnd ==
  /\ pc = "session" /\ s = 0 /\ nextS > sessEnd
  /\ results' = Append(results, cur) /\ snap' = Append(snap, cur)
  /\ pc' = "idle" /\ curAlias' = 0
  /\ UNCHANGED <<sel, selIn, selOut, base, cur, nextS, sessEnd, sig, s, opi, ioCopies, updated>>

Stutter == pc = "idle" /\ Len(results) = MaxSessions /\ UNCHANGED vars
Next == (\E prev \in 0..MaxSessions, last \in 0..NSamples, g \in 1..NSig : StartSession(prev, last, g))
        \/ SampleBegin \/ OpStep \/ SampleEnd \/ SessionEnd \/ Stutter
Spec == Init /\ [][Next]_vars

\* ------------------------------------------------------------------ C09
Range(a, b) == [k \in 1..(b - a + 1) |-> a + k - 1]
RECURSIVE Expected(_, _)
\* the fold sequence result r must carry for tensor t: the samples of the sessions of its history that ran t's signature
Expected(r, t) == LET b == base[r] IN
                  (IF b[1] = NoPrev \/ snap[b[1]][t] = Absent THEN <<>> ELSE Expected(b[1], t))
                  \o (IF SubOf(t) = b[4] THEN Range(b[2], b[3]) ELSE <<>>)
\* a tensor that only the virtual INPUT / OUTPUT operators mention has no entry until its signature has been calibrated
ExpectedEntry(r, t) == LET e == Expected(r, t) IN IF e = <<>> /\ t \notin RealSelected THEN Absent ELSE e
\* exact and order-faithful: every selected runtime tensor has folded exactly the samples of its history, in order, each once
ExactFold == \A r \in 1..Len(results) : \A t \in Selected : results[r][t] = ExpectedEntry(r, t)
\* resumable: a result resumed from r0 extends r0's statistics (prefix), never restarts
Resumes == \A r \in 1..Len(results) : base[r][1] # NoPrev =>
             \A t \in Selected : snap[base[r][1]][t] # Absent =>
                /\ Len(results[r][t]) >= Len(snap[base[r][1]][t])
                /\ SubSeq(results[r][t], 1, Len(snap[base[r][1]][t])) = snap[base[r][1]][t]
\* the previous result passed in is not modified (caller-owned objects keep the value they had when returned)
PrevUntouched == \A r \in 1..Len(results) : results[r] = snap[r]
\* only tensors of selected operators get statistics
OnlySelected == \A r \in 1..Len(results) : \A t \in Tensors : results[r][t] # Absent => t \in Selected

\* ---- behaviours for the spec -> code replay: emitted when a behaviour is complete
Behaviour == [sel |-> sel, selIn |-> selIn, selOut |-> selOut, base |-> base,
              results |-> [r \in 1..Len(results) |-> [t \in Tensors |-> results[r][t]]]]
EmitB == (pc = "idle" /\ Len(results) = MaxSessions) => PrintT(<<"BEHAV", ToJson(Behaviour)>>)
=============================================================================
