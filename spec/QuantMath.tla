------------------------------ MODULE QuantMath ------------------------------
(***************************************************************************)
(* Exact-rational reference of the quantisation arithmetic                  *)
(* (uniform_quantize_tensor.py), written from the TFLite quantisation spec: *)
(*   real = (q - zero_point) * scale,   q = clip(round_half_even(real/scale *)
(*   + zero_point)),  narrow range when symmetric.                          *)
(* Rationals are <<num, den>> with den > 0 (TLC integers are 32 bit: the    *)
(* vector grids below are sized so that no intermediate overflows; TLC      *)
(* would stop with an error, never wrap).                                   *)
(* TLC (a) checks the laws of C17 on this reference for every vector of the *)
(* grid and (b) emits the expected value of every vector; the harness       *)
(* compares the library's floats with them (spec -> code).                  *)
(***************************************************************************)
EXTENDS Integers, Sequences, FiniteSets, TLC, Json

CONSTANTS GridN,      \* ranges  min = -a/8, max = b/8 (also shifted one-sided ones), 0 <= a, b <= GridN
          XN          \* inputs  x = k/16, -XN <= k <= XN

\* ------------------------------------------------------------------ rationals
Abs(i) == IF i < 0 THEN -i ELSE i
RECURSIVE Gcd(_, _)
Gcd(a, b) == IF b = 0 THEN a ELSE Gcd(b, a % b)
Norm(r) == LET g == Gcd(Abs(r[1]), r[2]) IN IF g = 0 THEN <<0, 1>> ELSE <<r[1] \div g, r[2] \div g>>
R(n, d) == IF d < 0 THEN Norm(<<-n, -d>>) ELSE Norm(<<n, d>>)        \* d # 0
RInt(i) == <<i, 1>>
Lcm(a, b) == (a \div Gcd(a, b)) * b
RAdd(a, b) == LET l == Lcm(a[2], b[2]) IN R(a[1] * (l \div a[2]) + b[1] * (l \div b[2]), l)
RSub(a, b) == LET l == Lcm(a[2], b[2]) IN R(a[1] * (l \div a[2]) - b[1] * (l \div b[2]), l)
RMul(a, b) == LET x == R(a[1], b[2])  y == R(b[1], a[2]) IN R(x[1] * y[1], x[2] * y[2])     \* cross-reduce first
RDiv(a, b) == IF b[1] < 0 THEN RMul(a, <<-b[2], -b[1]>>) ELSE RMul(a, <<b[2], b[1]>>)
RLe(a, b) == LET l == Lcm(a[2], b[2]) IN a[1] * (l \div a[2]) <= b[1] * (l \div b[2])
RLt(a, b) == LET l == Lcm(a[2], b[2]) IN a[1] * (l \div a[2]) < b[1] * (l \div b[2])
RMax(a, b) == IF RLe(a, b) THEN b ELSE a
RMin(a, b) == IF RLe(a, b) THEN a ELSE b
RAbs(a) == <<Abs(a[1]), a[2]>>
RNeg(a) == <<-a[1], a[2]>>
RFloor(a) == a[1] \div a[2]                       \* TLC's \div floors
IsTie(a) == (2 * a[1]) % (2 * a[2]) = a[2]        \* fractional part exactly 1/2
\* numpy rint: round half to even
RRint(a) == LET f == RFloor(a)
                twice == 2 * (a[1] - f * a[2])     \* 2 * fractional part * den
            IN IF twice < a[2] THEN f
               ELSE IF twice > a[2] THEN f + 1
               ELSE IF f % 2 = 0 THEN f ELSE f + 1
Clip(i, lo, hi) == IF i < lo THEN lo ELSE IF i > hi THEN hi ELSE i

\* ------------------------------------------------------------------ reference functions
Pow2(n) == IF n = 0 THEN 1 ELSE LET RECURSIVE p(_)
                                    p(k) == IF k = 0 THEN 1 ELSE 2 * p(k-1)
                                IN p(n)
QMin(bits) == -Pow2(bits - 1)
QMax(bits) == Pow2(bits - 1) - 1
MinBound == <<1, 10000>>
\* tensor_zp_scale_from_min_max: <<zero point, scale, exact tie in the zero-point rounding>>
ZpScale(mn, mx, bits, sym) ==
  IF sym
  THEN LET bound == RMax(RMax(RAbs(mn), RAbs(mx)), MinBound) IN <<0, RDiv(bound, RInt(QMax(bits))), FALSE>>
  ELSE LET bmax == RMax(mx, RInt(0))
           bmin == RMin(mn, RInt(0))
           bound == RMax(RSub(bmax, bmin), MinBound)
           scale == RDiv(bound, RInt(QMax(bits) - QMin(bits)))
           zpf == RSub(RInt(QMin(bits)), RDiv(bmin, scale))
       IN <<RRint(zpf), scale, IsTie(zpf)>>
\* uniform_quantize of one element: <<code, exact tie>>
Quantize(x, scale, zp, bits, sym) ==
  LET v == RAdd(RDiv(x, scale), RInt(zp))
      lo == IF sym THEN QMin(bits) + 1 ELSE QMin(bits)
  IN <<Clip(RRint(v), lo, QMax(bits)), IsTie(v)>>
Dequantize(q, scale, zp) == RMul(RInt(q - zp), scale)
\* symmetric_quantize_bias_tensor: scale = s_in * s_w, zero point 0, narrow range
BiasBits(abits) == IF abits = 16 THEN 64 ELSE 32

\* ------------------------------------------------------------------ vectors
\* family "zs": parameter derivation
ZsVectors ==
  {[fam |-> "zs", mn |-> R(-a, 8), mx |-> R(b, 8), bits |-> bits, sym |-> sym] :
      a \in 0..GridN, b \in 0..GridN, bits \in {4, 8, 16}, sym \in BOOLEAN}
  \cup \* one-sided and degenerate ranges: all-positive, all-negative, constant, tiny
  {[fam |-> "zs", mn |-> R(a, 8), mx |-> R(a + b, 8), bits |-> bits, sym |-> sym] :
      a \in 1..3, b \in 0..3, bits \in {8, 16}, sym \in BOOLEAN}
  \cup
  {[fam |-> "zs", mn |-> R(-(a + b), 8), mx |-> R(-a, 8), bits |-> bits, sym |-> sym] :
      a \in 1..3, b \in 0..3, bits \in {8, 16}, sym \in BOOLEAN}
  \cup
  {[fam |-> "zs", mn |-> R(-a, 100000), mx |-> R(b, 100000), bits |-> bits, sym |-> sym] :
      a \in 0..6, b \in 0..6, bits \in {4, 8}, sym \in BOOLEAN}
\* family "q": element quantisation with dyadic scales (every float operation of the library is exact up to the
\* final rounding, so the expected code is unique except on exact ties)
QVectors ==
  {[fam |-> "q", x |-> R(k, 16), scale |-> sc, zp |-> zp, bits |-> bits, sym |-> sym] :
      k \in -XN..XN, sc \in {R(1, 8), R(3, 16), R(1, 2), R(5, 4)}, zp \in {-7, 0, 3}, bits \in {4, 8}, sym \in BOOLEAN}
Vectors == ZsVectors \cup QVectors

VARIABLE vec
Init == vec \in Vectors
Next == UNCHANGED vec
Spec == Init /\ [][Next]_vec

\* ------------------------------------------------------------------ C17 laws on the reference
ZsLaws(v) ==
  LET r == ZpScale(v.mn, v.mx, v.bits, v.sym)  zp == r[1]  sc == r[2]
      lo == IF v.sym THEN QMin(v.bits) + 1 ELSE QMin(v.bits)
      half == RDiv(sc, RInt(2))
  IN /\ RLt(RInt(0), sc)                                               \* scale positive (finite: a rational)
     /\ zp \in QMin(v.bits)..QMax(v.bits) /\ (v.sym => zp = 0)          \* zero point in range, 0 when symmetric
     /\ Dequantize(zp, sc, zp) = RInt(0)                                \* zero exactly representable ...
     /\ Quantize(RInt(0), sc, zp, v.bits, v.sym)[1] = zp                \* ... and is its own code
     /\ RLe(Dequantize(lo, sc, zp), RAdd(RMin(v.mn, RInt(0)), half))    \* [min, max] covered up to half a step
     /\ RLe(RSub(RMax(v.mx, RInt(0)), half), Dequantize(QMax(v.bits), sc, zp))
QLaws(v) ==
  LET q == Quantize(v.x, v.scale, v.zp, v.bits, v.sym)[1]
      lo == IF v.sym THEN QMin(v.bits) + 1 ELSE QMin(v.bits)
      inrange == RLe(Dequantize(lo, v.scale, v.zp), v.x) /\ RLe(v.x, Dequantize(QMax(v.bits), v.scale, v.zp))
  IN /\ q \in lo..QMax(v.bits)                                          \* inside the (narrow) range
     /\ (RLt(v.x, Dequantize(lo, v.scale, v.zp)) => q = lo)              \* saturating: below the range -> lowest code
     /\ (RLt(Dequantize(QMax(v.bits), v.scale, v.zp), v.x) => q = QMax(v.bits))      \* above the range -> highest code
     /\ inrange => RLe(RAbs(RSub(Dequantize(q, v.scale, v.zp), v.x)), RDiv(v.scale, RInt(2)))   \* half a step
     /\ Quantize(Dequantize(q, v.scale, v.zp), v.scale, v.zp, v.bits, v.sym)[1] = q                \* idempotent
     \* monotone: the next grid point never gets a smaller code
     /\ Quantize(RAdd(v.x, R(1, 16)), v.scale, v.zp, v.bits, v.sym)[1] >= q
Laws == IF vec.fam = "zs" THEN ZsLaws(vec) ELSE QLaws(vec)

\* ------------------------------------------------------------------ expected values for the spec -> code replay
Expected ==
  IF vec.fam = "zs"
  THEN LET r == ZpScale(vec.mn, vec.mx, vec.bits, vec.sym) IN
       [fam |-> "zs", mn |-> vec.mn, mx |-> vec.mx, bits |-> vec.bits, sym |-> vec.sym, zp |-> r[1], scale |-> r[2], tie |-> r[3]]
  ELSE LET r == Quantize(vec.x, vec.scale, vec.zp, vec.bits, vec.sym) IN
       [fam |-> "q", x |-> vec.x, scale |-> vec.scale, zp |-> vec.zp, bits |-> vec.bits, sym |-> vec.sym, q |-> r[1], tie |-> r[2]]
Emit == PrintT(<<"VEC", ToJson(Expected)>>)
=============================================================================
