---------------------------- MODULE QuantMathExt ----------------------------
(***************************************************************************)
(* QuantMath.tla applied to vectors that come from EXECUTIONS: statistics   *)
(* and constants of generated models (on a grid of small rationals) and the *)
(* BYTES the implementation stored.  Three kinds of vectors:                *)
(*  "zs"   expected zero point / scale for (min, max, bits, symmetric)       *)
(*  "dec"  stored constant: byte length, TFLite storage decode (int4: two    *)
(*         values per byte, low nibble first, sign extended; int8/16/32/64   *)
(*         little endian given as already assembled integers), and           *)
(*         | dequantize(q_e) - w_e | <= step/2 (symmetric) or step           *)
(*         (asymmetric), element by element, with a slack of step/64 for     *)
(*         the float rounding of a near-tie                                  *)
(*  "bias" stored bias code = round_half_even(b / (s_in * s_w)) unless it    *)
(*         saturates the bias type (exact below 2^20; above, float32         *)
(*         division leaves 1 + |code| / 2^20 units of slack)                 *)
(* TLC prints one verdict per vector (C04 numeric clause, C05, C15).        *)
(***************************************************************************)
EXTENDS QuantMath, IOUtils

Vecs == JsonDeserialize(IOEnv.VEC_FILE)
VARIABLE vi
V == Vecs[vi]
Rat(p) == R(p[1], p[2])

\* ---- int4 storage: two values per byte, low nibble first
SignExt4(n) == IF n >= 8 THEN n - 16 ELSE n
Nibbles(bytes, n) == [k \in 1..n |-> LET b == bytes[(k + 1) \div 2] IN SignExt4(IF k % 2 = 1 THEN b % 16 ELSE b \div 16)]
CeilDiv(a, b) == (a + b - 1) \div b

\* element e of a "dec" vector: code, original value, scale, zero point
DecOK ==
  LET n == Len(V.w)
      codes == IF V.bits = 4 THEN Nibbles(V.bytes, n) ELSE V.codes
      lo == IF V.sym THEN QMin(V.bits) + 1 ELSE QMin(V.bits)
      lenok == IF V.bits = 4 THEN Len(V.bytes) = CeilDiv(n, 2) /\ (n % 2 = 1 => V.bytes[Len(V.bytes)] \div 16 = 0)
               ELSE V.nbytes = n * (V.bits \div 8)
      elemok(e) == LET sc == Rat(V.scale[V.ch[e]])  zp == V.zp[V.ch[e]]
                       err == RAbs(RSub(Dequantize(codes[e], sc, zp), Rat(V.w[e])))
                       bound == IF V.sym THEN RDiv(sc, RInt(2)) ELSE sc
                       \* a value outside the representable range is clipped: then the error bound is the clipping distance
                       hiR == Dequantize(QMax(V.bits), sc, zp)  loR == Dequantize(lo, sc, zp)
                       clipped == RLt(hiR, Rat(V.w[e])) \/ RLt(Rat(V.w[e]), loR)
                   IN /\ codes[e] \in lo..QMax(V.bits)
                      /\ (clipped \/ RLe(err, RAdd(bound, RDiv(sc, RInt(64)))))
                      /\ clipped => codes[e] \in {lo, QMax(V.bits)}
  IN [id |-> V.id, kind |-> "dec", lenok |-> lenok, elems |-> \A e \in 1..n : elemok(e),
      firstbad |-> IF \A e \in 1..n : elemok(e) THEN 0 ELSE CHOOSE e \in 1..n : ~elemok(e)]

BiasOK ==
  LET n == Len(V.b)
      ok(e) == LET sc == RMul(Rat(V.sin), Rat(V.sw[V.ch[e]]))
                   v == RDiv(Rat(V.b[e]), sc)
                   q == RRint(v)
                   \* the library divides in float32 (relative error of a few 2^-24): above 2^20 that is a few units in the last
                   \* place; below, the integer part is exact but a quotient whose fractional part is within |q| * 2^-19 of 1/2
                   \* may fall on either side of the tie (v = f + d/(2*den) away from it, d = |2*frac*den - den|)
                   d == Abs(2 * (v[1] - RFloor(v) * v[2]) - v[2])
                   nearTie == Abs(q) >= 64 /\ d * (524288 \div (Abs(q) + 1)) <= v[2]
                   tol == IF Abs(q) < 1048576 THEN (IF IsTie(v) \/ nearTie THEN 1 ELSE 0) ELSE 1 + Abs(q) \div 1048576
               IN Abs(V.codes[e] - q) <= tol \/ V.sat[e]
  IN [id |-> V.id, kind |-> "bias", elems |-> \A e \in 1..n : ok(e),
      firstbad |-> IF \A e \in 1..n : ok(e) THEN 0 ELSE CHOOSE e \in 1..n : ~ok(e)]

ZsOut == LET r == ZpScale(Rat(V.mn), Rat(V.mx), V.bits, V.sym) IN [id |-> V.id, kind |-> "zs", zp |-> r[1], scale |-> r[2], tie |-> r[3]]

Out == CASE V.kind = "zs" -> ZsOut [] V.kind = "dec" -> DecOK [] V.kind = "bias" -> BiasOK

InitE == vi \in 1..Len(Vecs) /\ vec = [fam |-> "ext"]
NextE == UNCHANGED <<vi, vec>>
SpecE == InitE /\ [][NextE]_<<vi, vec>>
EmitE == PrintT(<<"OUT", ToJson(Out)>>)
=============================================================================
