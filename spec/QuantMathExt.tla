---------------------------- MODULE QuantMathExt ----------------------------
(***************************************************************************)
(* QuantMath.tla applied to vectors that come from EXECUTIONS: statistics   *)
(* and constants of generated models (on a grid of small rationals) and the *)
(* BYTES the implementation stored.  Three kinds of vectors:                *)
(*  "zs"   expected zero point / scale for (min, max, bits, symmetric)       *)
(*  "dec"  stored constant: byte length, TFLite storage decode (int4: two    *)
(*         values per byte, low nibble first, sign extended; int8/16/32/64   *)
(*         little endian given as already assembled integers), and           *)
(*         | dequantize(q_e) - w_e | <= step/2 (symmetric) or step           *)
(*         (asymmetric), element by element, with a slack of step/64 for     *)
(*         the float rounding of a near-tie                                  *)
(*  "bias" stored bias code = round_half_even(b / (s_in * s_w)) unless it    *)
(*         saturates the bias type (exact below 2^20; above, float32         *)
(*         division leaves 1 + |code| / 2^20 units of slack)                 *)
(* TLC prints one verdict per vector (C04 numeric clause, C05, C15).        *)
(***************************************************************************)
EXTENDS QuantMath, BigNat, IOUtils

Vecs == JsonDeserialize(IOEnv.VEC_FILE)
VARIABLE vi
V == Vecs[vi]
Rat(p) == R(p[1], p[2])

\* ---- int4 storage: two values per byte, low nibble first
SignExt4(n) == IF n >= 8 THEN n - 16 ELSE n
Nibbles(bytes, n) == [k \in 1..n |-> LET b == bytes[(k + 1) \div 2] IN SignExt4(IF k % 2 = 1 THEN b % 16 ELSE b \div 16)]
CeilDiv(a, b) == (a + b - 1) \div b

\* element e of a "dec" vector: code, original value, scale, zero point
DecOK ==
  LET n == Len(V.w)
      codes == IF V.bits = 4 THEN Nibbles(V.bytes, n) ELSE V.codes
      lo == IF V.sym THEN QMin(V.bits) + 1 ELSE QMin(V.bits)
      lenok == IF V.bits = 4 THEN Len(V.bytes) = CeilDiv(n, 2) /\ (n % 2 = 1 => V.bytes[Len(V.bytes)] \div 16 = 0)
               ELSE V.nbytes = n * (V.bits \div 8)
      elemok(e) == LET sc == Rat(V.scale[V.ch[e]])  zp == V.zp[V.ch[e]]
                       err == RAbs(RSub(Dequantize(codes[e], sc, zp), Rat(V.w[e])))
                       bound == IF V.sym THEN RDiv(sc, RInt(2)) ELSE sc
                       \* a value outside the representable range is clipped: then the error bound is the clipping distance
                       hiR == Dequantize(QMax(V.bits), sc, zp)  loR == Dequantize(lo, sc, zp)
                       clipped == RLt(hiR, Rat(V.w[e])) \/ RLt(Rat(V.w[e]), loR)
                   IN /\ codes[e] \in lo..QMax(V.bits)
                      /\ (clipped \/ RLe(err, RAdd(bound, RDiv(sc, RInt(64)))))
                      /\ clipped => codes[e] \in {lo, QMax(V.bits)}
  IN [id |-> V.id, kind |-> "dec", lenok |-> lenok, elems |-> \A e \in 1..n : elemok(e),
      firstbad |-> IF \A e \in 1..n : elemok(e) THEN 0 ELSE CHOOSE e \in 1..n : ~elemok(e)]

\* ---- bias codes.  q = b / (s_in * s_w) does not fit TLC's 32-bit rationals in general (int64 codes, 16-bit input scales):
\* the comparison is made on big naturals (BigNat.tla).  With N = |b_num| * sin_den * sw_den and D = b_den * sin_num * sw_num
\* (q = +-N/D) and C = |code|:  D * |code - q| = | C*D -+ N |.  The library divides in float32 (relative error of a few
\* 2^-24), so the stored code may differ from round_half_even(q) when q is within (|code| + 1) * 2^-19 of a tie:
\*      |code - q| <= 1/2 + (|code| + 1) / 2^19     (exactly 1/2 for |code| < 64)
BiasOK ==
  LET n == Len(V.b)
      ok(e) == LET bn == V.b[e][1]  bd == V.b[e][2]
                   sn == V.sin[1]  sd == V.sin[2]
                   wn == V.sw[V.ch[e]][1]  wd == V.sw[V.ch[e]][2]
                   N == BMulInt(BMulInt(BFromInt(Abs(bn)), sd), wd)
                   D == BMulInt(BMulInt(BFromInt(bd), sn), wn)
                   cs == V.codes[e][1]  C == V.codes[e][2]
                   bs == IF bn < 0 THEN -1 ELSE IF bn > 0 THEN 1 ELSE 0
                   CD == BMul(C, D)
                   E == IF cs * bs >= 0 THEN BAbsDiff(CD, N) ELSE BAdd(CD, N)          \* D * |code - q|
                   small == Len(C) <= 1 /\ (C = <<>> \/ C[1] < 64)
               IN V.sat[e]
                  \/ (small /\ BLe(BMulInt(E, 2), D))
                  \/ (~small /\ BLe(BMulInt(E, 524288), BMul(D, BAdd(C, BFromInt(262145)))))
  IN [id |-> V.id, kind |-> "bias", elems |-> \A e \in 1..n : ok(e),
      firstbad |-> IF \A e \in 1..n : ok(e) THEN 0 ELSE CHOOSE e \in 1..n : ~ok(e)]

ZsOut == LET r == ZpScale(Rat(V.mn), Rat(V.mx), V.bits, V.sym) IN [id |-> V.id, kind |-> "zs", zp |-> r[1], scale |-> r[2], tie |-> r[3]]

Out == CASE V.kind = "zs" -> ZsOut [] V.kind = "dec" -> DecOK [] V.kind = "bias" -> BiasOK

InitE == vi \in 1..Len(Vecs) /\ vec = [fam |-> "ext"]
NextE == UNCHANGED <<vi, vec>>
SpecE == InitE /\ [][NextE]_<<vi, vec>>
EmitE == PrintT(<<"OUT", ToJson(Out)>>)
=============================================================================
