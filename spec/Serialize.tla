------------------------------ MODULE Serialize ------------------------------
(***************************************************************************)
(* model_modifier._serialize_large_model (M6 of DESIGN): constants are       *)
(* appended after the flatbuffer, each buffer carrying (offset, size).       *)
(*                                                                         *)
(*  pass 1  strip the data, give every data buffer the placeholder           *)
(*          (offset, size) = (1, 1), serialise -> dummy flatbuffer of        *)
(*          length h1, pad to 16; lay the constants out behind it: off[i]    *)
(*  pass 2  serialise again with the real (offset, size) -> final flatbuffer *)
(*          of length h2, pad to 16; append the constants in the same order  *)
(*                                                                         *)
(* The two flatbuffers differ only in the VALUES of offset/size, and a       *)
(* flatbuffer omits a scalar field that has its default value 0: a data      *)
(* buffer of size 0 loses its `size` field in pass 2, so h2 may be smaller   *)
(* than h1 by up to 8 bytes per such buffer (Shrink below is that set; the   *)
(* exact amount depends on vtable sharing and is left nondeterministic).     *)
(* With the "realsize" repair pass 1 already writes the real sizes, so both  *)
(* flatbuffers omit the same fields and h2 = h1.                             *)
(***************************************************************************)
EXTENDS Integers, Sequences, FiniteSets, TLC

CONSTANTS NBuf,       \* number of buffers
          Sizes,      \* possible data sizes; -1 = buffer without data
          Hdrs,       \* possible lengths of the dummy flatbuffer
          Fixes

VARIABLES size, h1, h2, off, emitted, total, pc
vars == <<size, h1, h2, off, emitted, total, pc>>

Pad16(n) == ((n + 15) \div 16) * 16
HasData(i) == size[i] >= 0
ZeroData == {i \in 1..NBuf : size[i] = 0}
\* final flatbuffer length given the dummy one
Shrink == {h1 - d : d \in 0..(8 * Cardinality(ZeroData))}
RECURSIVE Layout(_, _, _)
\* offsets assigned to buffers i..NBuf when the next free position is pos
Layout(i, pos, acc) == IF i > NBuf THEN <<acc, pos>>
                       ELSE IF HasData(i) THEN Layout(i+1, Pad16(pos + size[i]), [acc EXCEPT ![i] = pos])
                       ELSE Layout(i+1, pos, acc)

Init == /\ size \in [1..NBuf -> Sizes] /\ h1 \in Hdrs
        /\ h2 = 0 /\ off = [i \in 1..NBuf |-> 0] /\ emitted = [i \in 1..NBuf |-> 0] /\ total = 0 /\ pc = "pass1"

Pass1 == /\ pc = "pass1"
         /\ off' = Layout(1, Pad16(h1), off)[1]
         /\ pc' = "pass2"
         /\ UNCHANGED <<size, h1, h2, emitted, total>>

Pass2 == /\ pc = "pass2"
         /\ h2' \in (IF "realsize" \in Fixes THEN {h1} ELSE Shrink)     \* repaired: the dummy model already carries the real sizes
         /\ LET l == Layout(1, Pad16(h2'), [i \in 1..NBuf |-> 0]) IN emitted' = l[1] /\ total' = l[2]
         /\ pc' = "done"
         /\ UNCHANGED <<size, h1, off>>

Stutter == pc = "done" /\ UNCHANGED vars
Next == Pass1 \/ Pass2 \/ Stutter
Spec == Init /\ [][Next]_vars

\* ------------------------------------------------------------------ C16 (layout clauses)
Data == {i \in 1..NBuf : HasData(i)}
Aligned == pc = "done" => \A i \in Data : off[i] % 16 = 0
InBounds == pc = "done" => \A i \in Data : off[i] >= h2 /\ off[i] + size[i] <= total
Disjoint == pc = "done" => \A i, j \in Data : i # j /\ size[i] > 0 /\ size[j] > 0 =>
                              (off[i] + size[i] <= off[j] \/ off[j] + size[j] <= off[i])
\* the recorded offset is where the bytes of buffer i were actually appended
PointsAtData == pc = "done" => \A i \in Data : size[i] > 0 => off[i] = emitted[i]
=============================================================================
