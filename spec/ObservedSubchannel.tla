------------------------- MODULE ObservedSubchannel -------------------------
(* C01's clauses (GraphWF.tla) evaluated by TLC on graphs projected from models the implementation returned. *)
EXTENDS Integers, Sequences, FiniteSets, TLC, Json, IOUtils
W == INSTANCE GraphWF
Obs == JsonDeserialize(IOEnv.OBS_FILE)
VARIABLE i
G(o) == [nt |-> o.nt, ops |-> o.ops, gins |-> o.gins, gouts |-> o.gouts, consts |-> W!Rng(o.consts), names |-> o.names]
Init == i \in 1..Len(Obs)
Next == UNCHANGED i
Spec == Init /\ [][Next]_i
Emit == PrintT(<<"VERDICT", ToJson([id |-> Obs[i].id] @@ W!Verdict(G(Obs[i])))>>)
=============================================================================
