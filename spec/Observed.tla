------------------------------ MODULE Observed ------------------------------
(***************************************************************************)
(* code -> spec: states OBSERVED from the implementation (projection of the *)
(* input flatbuffer and of the flatbuffer returned by quantize(), see       *)
(* harness/project.py) are loaded from a JSON file; TLC evaluates the SAME  *)
(* GraphProps predicates that it checks on the design (Pipeline.tla) on     *)
(* every one of them and prints one total verdict per observation.          *)
(* Batched: one TLC run validates thousands of observations (`tid`).        *)
(***************************************************************************)
EXTENDS Integers, Sequences, FiniteSets, TLC, Json, IOUtils

Obs == JsonDeserialize(IOEnv.OBS_FILE)        \* sequence of observations

VARIABLE tid
Cur == Obs[tid]
GP == INSTANCE GraphProps WITH G <- Cur.G, R <- Cur.R, mode <- Cur.mode, inmode <- Cur.inmode, outmode <- Cur.outmode

NS == Len(Cur.R)
Verdict ==
  [id |-> Cur.id,
   inrange |-> \A s \in 1..NS : GP!InRange(s),
   \* the remaining clauses index tensors, so they are only meaningful (and only evaluated) when indices are in range
   topo    |-> (\A s \in 1..NS : GP!InRange(s)) => \A s \in 1..NS : GP!TopoOK(s),
   single  |-> (\A s \in 1..NS : GP!InRange(s)) => \A s \in 1..NS : GP!SingleProducer(s),
   names   |-> \A s \in 1..NS : GP!UniqueNames(s),
   skelops |-> (\A s \in 1..NS : GP!InRange(s)) => \A s \in 1..NS : GP!SkelOps(s),
   skelten |-> \A s \in 1..NS : GP!SkelTensors(s),
   skelio  |-> (\A s \in 1..NS : GP!InRange(s)) => \A s \in 1..NS : GP!SkelIO(s),
   skelnm  |-> (\A s \in 1..NS : GP!InRange(s)) => \A s \in 1..NS : GP!SkelIONamesModKF(s),
   kf7     |-> (\A s \in 1..NS : GP!InRange(s)) /\ \E s \in 1..NS : GP!KF7Hit(s),
   skelsig |-> \A s \in 1..NS : GP!SkelSig(s),
   skeltyp |-> (\A s \in 1..NS : GP!InRange(s)) => \A s \in 1..NS : GP!SkelIOType(s),
   modes   |-> (\A s \in 1..NS : GP!InRange(s) /\ GP!SkelOps(s)) => \A s \in 1..NS : GP!ModesRespected(s),
   params  |-> (\A s \in 1..NS : GP!InRange(s) /\ GP!SkelOps(s)) => \A s \in 1..NS : GP!ParamRelations(s),
   bytes   |-> (\A s \in 1..NS : GP!InRange(s)) => GP!SharedConstOK]

Init == tid \in 1..Len(Obs)
Next == UNCHANGED tid
Spec == Init /\ [][Next]_tid
Emit == PrintT(<<"VERDICT", ToJson(Verdict)>>)
=============================================================================
