--------------------------- MODULE ObservedValidate ---------------------------
(***************************************************************************)
(* code -> spec for C18: the four groups OBSERVED in the ComparisonResult   *)
(* returned by validate()/compare_model, with the name sets read from the   *)
(* two models by the harness; TLC evaluates Validate!PartitionOK's clauses  *)
(* and the value clauses (value observations are booleans computed against  *)
(* the harness's own two interpreter runs).                                 *)
(***************************************************************************)
EXTENDS Integers, Sequences, FiniteSets, TLC, Json, IOUtils

Obs == JsonDeserialize(IOEnv.OBS_FILE)
VARIABLE tid
Cur == Obs[tid]
S(q) == {q[k] : k \in 1..Len(q)}
NoDup(q) == Cardinality(S(q)) = Len(q)

Verdict ==
  [id |-> Cur.id,
   disjoint |-> /\ S(Cur.gin) \cap S(Cur.gout) = {} /\ S(Cur.gin) \cap S(Cur.gconst) = {} /\ S(Cur.gin) \cap S(Cur.ginter) = {}
                /\ S(Cur.gout) \cap S(Cur.gconst) = {} /\ S(Cur.gout) \cap S(Cur.ginter) = {} /\ S(Cur.gconst) \cap S(Cur.ginter) = {}
                /\ NoDup(Cur.gin) /\ NoDup(Cur.gout) /\ NoDup(Cur.gconst) /\ NoDup(Cur.ginter),
   \* every tensor of both models' subgraph has an entry (the interpreter may add entries for its own temporaries,
   \* e.g. kernel scratch buffers: the property does not forbid them)
   complete |-> (S(Cur.ref) \cap S(Cur.tgt)) \subseteq (S(Cur.gin) \cup S(Cur.gout) \cup S(Cur.gconst) \cup S(Cur.ginter)),
   \* (a signature input that is also an output is filed once, under inputs)
   filed    |-> S(Cur.gin) = S(Cur.ins) /\ S(Cur.gout) = S(Cur.outs) \ S(Cur.ins) /\ S(Cur.gconst) = S(Cur.consts),
   \* reading the result (get_all_tensor_results(), save() twice) left the four groups as they were, the flat view holds every
   \* grouped tensor, and the saved file holds the same four groups
   reads    |-> /\ Cur.stable /\ Cur.savedok
                /\ (S(Cur.gin) \cup S(Cur.gout) \cup S(Cur.gconst) \cup S(Cur.ginter)) \subseteq S(Cur.flat),
   values   |-> \A k \in 1..Len(Cur.valok) : Cur.valok[k],
   selfzero |-> Cur.self => \A k \in 1..Len(Cur.iszero) : Cur.iszero[k]]

Init == tid \in 1..Len(Obs)
Next == UNCHANGED tid
Spec == Init /\ [][Next]_tid
Emit == PrintT(<<"VERDICT", ToJson(Verdict)>>)
=============================================================================
