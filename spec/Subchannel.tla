----------------------------- MODULE Subchannel -----------------------------
(***************************************************************************)
(* The EMULATED_SUBCHANNEL rewrite (transformations/emulated_subchannel.py): *)
(* a FULLY_CONNECTED operator whose weight is quantised block-wise is        *)
(* REPLACED by                                                               *)
(*   RESHAPE -> BATCH_MATMUL -> MUL(block scales) -> SUM(axis 1) -> RESHAPE  *)
(*   [-> ADD(bias)] [-> RELU]                                                *)
(* with four new constants (scales, reduce axes, two shapes) and four to six *)
(* new activation tensors, the last new operator writing the ORIGINAL output *)
(* tensor (renamed <name>_relu when the fused activation is split off).      *)
(* This is the one transformation that is not an insertion of QUANTIZE /     *)
(* DEQUANTIZE operators and it is outside the vocabulary of Pipeline.tla     *)
(* (reachable only with skip_checks).  The model: a chain                    *)
(*     x -> [unknown op] -> FC_1 -> .. -> FC_n -> [unknown op] -> out        *)
(* each FC with / without bias, fused activation none / RELU / RELU6,       *)
(* block-wise or float, activations of rank 3 or 2 (the rewrite refuses       *)
(* RELU6 and rank 2: ValueError, nothing is returned); the performer applies one instruction per block-wise weight in     *)
(* tensor order (one action each).  C01's clauses (GraphWF.tla) are          *)
(* invariants of EVERY state, the intermediate ones included.                *)
(***************************************************************************)
EXTENDS Integers, Sequences, FiniteSets, TLC, Json

CONSTANTS Acts,       \* fused activations of the FULLY_CONNECTED operators: subset of {"none", "relu", "relu6"}
          Ranks,      \* ranks of the activations: subset of {2, 3}
          MaxFC,      \* FULLY_CONNECTED operators in the chain: 1..MaxFC
          Bugs        \* {} = the code as it is; {"keep_fc"} = the replaced operator is not deleted (self-test of the invariants)

VARIABLES cfg, rank, g, k, pc     \* rank = number of dimensions of the activations (the rewrite handles 3 only)
vars == <<cfg, rank, g, k, pc>>
W == INSTANCE GraphWF

Unk == [kind |-> "UNK", bias |-> FALSE, relu |-> "none", blk |-> FALSE]
\* relu: the fused activation; "relu6" stands for the ones the rewrite refuses
FCs == {[kind |-> "FC", bias |-> b, relu |-> r, blk |-> q] : b \in BOOLEAN, r \in Acts, q \in BOOLEAN}
Cfgs == {pre \o fcs \o post : pre \in {<<>>, <<Unk>>}, post \in {<<>>, <<Unk>>},
                              fcs \in {f \in UNION {[1..n -> FCs] : n \in 1..MaxFC} : \E i \in DOMAIN f : f[i].blk}}

Op(c, ins, outs, seg) == [code |-> c, ins |-> ins, outs |-> outs, seg |-> seg]

\* the float chain in converter order: per operator its constants, then its output
RECURSIVE Build(_, _, _)
Build(segs, i, a) ==
  IF i > Len(segs) THEN a
  ELSE LET s == segs[i]  n == ToString(i) IN
    IF s.kind = "UNK"
    THEN Build(segs, i + 1, [nt |-> a.nt + 1, ops |-> Append(a.ops, Op("UNK", <<a.prev>>, <<a.nt>>, i)), consts |-> a.consts,
                              names |-> Append(a.names, "u" \o n), prev |-> a.nt])
    ELSE LET w == a.nt  b == IF s.bias THEN a.nt + 1 ELSE -1  o == a.nt + (IF s.bias THEN 2 ELSE 1) IN
         Build(segs, i + 1, [nt |-> o + 1, ops |-> Append(a.ops, Op("FC", <<a.prev, w, b>>, <<o>>, i)),
                              consts |-> a.consts \cup {w} \cup (IF s.bias THEN {b} ELSE {}),
                              names |-> a.names \o <<"w" \o n>> \o (IF s.bias THEN <<"b" \o n>> ELSE <<>>) \o <<"y" \o n>>, prev |-> o])

Float(c) == LET a == Build(c, 1, [nt |-> 1, ops |-> <<>>, consts |-> {}, names |-> <<"x">>, prev |-> 0])
            IN [nt |-> a.nt, ops |-> a.ops, gins |-> <<0>>, gouts |-> <<a.prev>>, consts |-> a.consts, names |-> a.names, wq |-> {}]

Init == cfg \in Cfgs /\ rank \in Ranks /\ g = Float(cfg) /\ k = 1 /\ pc = "run"

\* the rewrite refuses (ValueError, nothing is returned): a fused activation other than NONE / RELU (checked first), activations that are not 3-D
Refused(i) == cfg[i].relu \notin {"none", "relu"} \/ rank # 3
Why(i) == IF cfg[i].relu \notin {"none", "relu"} THEN "fused_activation" ELSE "rank"

\* ---- one EMULATED_SUBCHANNEL instruction: the operator of segment i is replaced
Rewritten(i) ==
  LET p == CHOOSE q \in DOMAIN g.ops : g.ops[q].seg = i
      fc == g.ops[p]  s == cfg[i]
      x == fc.ins[1]  w == fc.ins[2]  b == fc.ins[3]  out == fc.outs[1]
      oname == g.names[out + 1]  wname == g.names[w + 1]
      nt == g.nt
      scale == nt  axes == nt + 1  r1s == nt + 2  r2s == nt + 3
      bmmin == nt + 4  mulin == nt + 5  sumin == nt + 6  r2in == nt + 7
      nb == IF s.bias THEN 1 ELSE 0
      r2out == nt + 8                    \* only with a bias
      reluin == nt + 8 + nb              \* only with a fused RELU
      oname2 == IF s.relu = "relu" THEN oname \o "_relu" ELSE oname      \* the output tensor is RENAMED when the RELU is split off
      names1 == g.names \o <<wname \o "_scale", wname \o "_reduce_axes", oname \o "_reshape_op1_shape", oname \o "_reshape_op2_shape",
                              oname \o "_bmm_input", oname \o "_mul_input", oname \o "_reduce_sum_input", oname \o "_reshape_op2_input">>
                        \o (IF s.bias THEN <<oname \o "_reshape_op2_output">> ELSE <<>>)
      names2 == [names1 EXCEPT ![out + 1] = oname2] \o (IF s.relu = "relu" THEN <<oname2 \o "_relu_input">> ELSE <<>>)
      afterR2 == IF s.bias THEN r2out ELSE IF s.relu = "relu" THEN reluin ELSE out
      afterAdd == IF s.relu = "relu" THEN reluin ELSE out
      new == <<Op("RESHAPE", <<x, r1s>>, <<bmmin>>, 0), Op("BATCH_MATMUL", <<bmmin, w>>, <<mulin>>, 0), Op("MUL", <<mulin, scale>>, <<sumin>>, 0),
               Op("SUM", <<sumin, axes>>, <<r2in>>, 0), Op("RESHAPE", <<r2in, r2s>>, <<afterR2>>, 0)>>
             \o (IF s.bias THEN <<Op("ADD", <<r2out, b>>, <<afterAdd>>, 0)>> ELSE <<>>)
             \o (IF s.relu = "relu" THEN <<Op("RELU", <<reluin>>, <<out>>, 0)>> ELSE <<>>)
      kept == IF "keep_fc" \in Bugs THEN <<fc>> ELSE <<>>
  IN [g EXCEPT !.nt = nt + 8 + nb + (IF s.relu = "relu" THEN 1 ELSE 0),
               !.ops = SubSeq(g.ops, 1, p - 1) \o new \o kept \o SubSeq(g.ops, p + 1, Len(g.ops)),
               !.consts = @ \cup {scale, axes, r1s, r2s}, !.names = names2, !.wq = @ \cup {w}]

Blk(i) == cfg[i].kind = "FC" /\ cfg[i].blk
Step == /\ pc = "run" /\ k <= Len(cfg) /\ ~(Blk(k) /\ Refused(k))
        /\ g' = IF Blk(k) THEN Rewritten(k) ELSE g
        /\ k' = k + 1 /\ UNCHANGED <<cfg, rank, pc>>
Refuse == pc = "run" /\ k <= Len(cfg) /\ Blk(k) /\ Refused(k) /\ pc' = Why(k) /\ UNCHANGED <<cfg, rank, g, k>>
Finish == pc = "run" /\ k > Len(cfg) /\ pc' = "done" /\ UNCHANGED <<cfg, rank, g, k>>
Next == Step \/ Refuse \/ Finish
Spec == Init /\ [][Next]_vars

\* ---- properties
\* a model is returned iff no selected operator is refused
InvOutcome == pc \notin {"run"} => ((pc = "done") <=> \A i \in DOMAIN cfg : Blk(i) => ~Refused(i))
InvWellFormed == W!WellFormed(g)                                   \* C01's clauses, in every state
InvIO == g.gins = <<0>> /\ g.gouts = Float(cfg).gouts              \* the graph's inputs / outputs are the same tensors
\* operators that are not replaced stay, in their order, wired to the same tensors
InvOthersKept == LET orig == Float(cfg).ops
                     left == SelectSeq(g.ops, LAMBDA o : o.seg # 0)
                     want == SelectSeq(orig, LAMBDA o : ~(cfg[o.seg].kind = "FC" /\ cfg[o.seg].blk /\ o.seg < k) \/ "keep_fc" \in Bugs)
                 IN left = want
\* each replaced operator's output tensor is now written by the last operator of its replacement
InvOutputRewired == \A i \in 1..(k - 1) : (cfg[i].kind = "FC" /\ cfg[i].blk) =>
                      LET out == Float(cfg).ops[i].outs[1]
                          pr == W!Producers(g, out)
                      IN "keep_fc" \in Bugs \/ (Cardinality(pr) = 1 /\ \A q \in pr : g.ops[q].code = (IF cfg[i].relu = "relu" THEN "RELU" ELSE IF cfg[i].bias THEN "ADD" ELSE "RESHAPE"))
InvCount == pc = "done" => Len(g.ops) = Len(cfg) + LET B == {i \in DOMAIN cfg : cfg[i].kind = "FC" /\ cfg[i].blk} IN
                              4 * Cardinality(B) + Cardinality({i \in B : cfg[i].bias}) + Cardinality({i \in B : cfg[i].relu = "relu"})
                              + (IF "keep_fc" \in Bugs THEN Cardinality(B) ELSE 0)

Emit == pc # "run" => PrintT(<<"DUMP", ToJson([cfg |-> cfg, rank |-> rank, pc |-> pc, g |-> g])>>)
=============================================================================
