------------------------------ MODULE Pipeline ------------------------------
(***************************************************************************)
(* quantize() of ai-edge-quantizer as a state machine (M2 + M3 of DESIGN):  *)
(*                                                                         *)
(*   build   : AddOp / NewSub / Seal enumerate the scenario (float graph,  *)
(*             resolved mode per op); frozen afterwards                    *)
(*   mat     : params_generator.generate_quantization_parameters - one     *)
(*             step per operator incl. the virtual INPUT/OUTPUT operators  *)
(*   bufcheck: params_generator._check_buffer_sharing                      *)
(*   gen     : transformation_instruction_generator (per tensor, in order  *)
(*             of first mention): horizontal grouping + vertical optimis.  *)
(*   apply   : transformation_performer (per instruction): quantize_tensor,*)
(*             insert_quant, insert_dequant, id-map bookkeeping            *)
(*   done | raised(why)                                                    *)
(*                                                                         *)
(* The code's own bookkeeping is state (omap = _original_op_id_map, amap = *)
(* _added_op_id_map, qsv with same-scale aliasing, first-mention order).   *)
(* Flags select the behaviour before / after each repair (see DESIGN 6).   *)
(* Ids are 0-based as in the flatbuffer, sequences are 1-based.            *)
(***************************************************************************)
EXTENDS Integers, Sequences, FiniteSets, TLC, Json

CONSTANTS
  MaxOps,      \* total number of operators over all subgraphs
  MaxSub,      \* number of subgraphs
  MaxIns,      \* graph inputs per subgraph (1..MaxIns)
  Kinds,       \* operator kinds enumerated
  KM,          \* [kind -> set of modes] offered to operators of that kind (what a resolved recipe can yield)
  IOModes,     \* modes offered to the virtual INPUT / OUTPUT operators
  Share,       \* "none" | "tensor" | "buffer": constants may be shared between ops
  Dup,         \* "no" | "only" | "both": a subgraph may list one tensor twice among its outputs (return y, y)
  PassThru,    \* BOOLEAN: a graph input may also be listed among the outputs (return x, f(x))
  SigOrder,    \* "same" | "rev" | "both": a signature lists its inputs / outputs in the order of the subgraph's lists or reversed
               \*   (the converter sorts signature entries by name, so any order is legal)
  Layout,      \* "alloc" | "actsfirst" | "both": order of the tensor table - as allocated by the build phase (constants
               \*   right before the operator's outputs, what a converter emits), or all activations before all constants
  Fixes        \* set of repairs present in the code being modelled (DESIGN 6):
               \*   "perf"   performer: op 0 is a producer, -1 stays -1, position-based id-map shift (F1/F2)
               \*   "remove" guarded list.remove in the requantise branch (F11)
               \*   "aq"     two ADD_QUANTIZE consumers with different parameters are compatible (F10)
               \*   "sig"    signature outputs follow rewired subgraph outputs (F6)
               \*   "uniq"   inserted tensors get a name that is unique in the subgraph (F19)
               \*   "concat" constants of same-as-output ops are quantised with the output's parameters (F13)

FixPerf == "perf" \in Fixes
FixRemove == "remove" \in Fixes
FixAQ == "aq" \in Fixes
FixSig == "sig" \in Fixes
FixConcat == "concat" \in Fixes
FixUniq == "uniq" \in Fixes

NoPar == <<"none">>
NoEntry == [op |-> -9, tr |-> "none", par |-> NoPar]
NOQ == [m |-> "NOQ", a |-> "-", w |-> "-"]

VARIABLES
  \* ---- scenario (built in phase "build", then frozen)
  G,        \* seq over subgraphs: [ops, trole, tbuf, tsh, gins, gouts]
  mode,     \* seq over subgraphs of seq over ops of mode records
  inmode, outmode,
  nbufg,    \* number of shared-buffer groups allocated so far
  \* ---- materialiser
  qsv,      \* [s][t+1] : statistics term (value semantics; see DESIGN 3.2)
  prod,     \* [s][t+1] : producer entry or NoEntry
  cons,     \* [s][t+1] : seq of consumer entries, one per mention
  order,    \* seq of <<s, t>> in first-mention order (dict insertion order of model_quant_results)
  \* ---- rewriting state, per subgraph: [ops, outs, dt, par, ntens, omap, amap]
  R,
  bufw,     \* seq of <<buffer, par>>: every write of constant data, in order
  qi, insts, pc, why

vars == <<G, mode, inmode, outmode, nbufg, qsv, prod, cons, order, R, bufw, qi, insts, pc, why>>
scn == <<G, mode, inmode, outmode, nbufg>>

\* ------------------------------------------------------------------ helpers
SeqRange(s) == {s[k] : k \in 1..Len(s)}
MinS(S) == CHOOSE x \in S : \A y \in S : x <= y
MaxS(S) == CHOOSE x \in S : \A y \in S : x >= y
Max2(a, b) == IF a > b THEN a ELSE b
AscSeq(S) == LET RECURSIVE f(_)
                 f(Q) == IF Q = {} THEN <<>> ELSE LET m == MinS(Q) IN <<m>> \o f(Q \ {m})
             IN f(S)
Entry(o, tr, par) == [op |-> o, tr |-> tr, par |-> par]
NSub == Len(G)
NOpsOf(s) == Len(G[s].ops)
NT0(s) == Len(G[s].trole)
TotalOps == LET RECURSIVE f(_)
                f(s) == IF s > NSub THEN 0 ELSE NOpsOf(s) + f(s+1)
            IN f(1)
Role(s, t) == G[s].trole[t+1]
IsConstRole(r) == r \in {"w", "b", "c"}
IsConst(s, t) == t < NT0(s) /\ IsConstRole(Role(s, t))
IsAux(s, t) == t < NT0(s) /\ Role(s, t) = "aux"
BufOf(s, t) == IF G[s].tbuf[t+1] = 0 THEN <<s, t>> ELSE <<0, G[s].tbuf[t+1]>>

WeightKinds == {"FC", "TCONV", "BMM", "BMMC", "EMB"}
Sig(k) == CASE k = "FC"      -> <<"act", "w", "b?">>
            [] k = "TCONV"   -> <<"aux", "w", "act", "b?">>
            [] k = "BMM"     -> <<"act", "w">>
            [] k = "BMMC"    -> <<"w", "act">>      \* batch matmul whose FIRST operand is the constant
            [] k = "EMB"     -> <<"aux", "w">>
            [] k = "EW2"     -> <<"x", "x">>
            [] k = "UNSUP2"  -> <<"x", "x">>      \* a binary operator the quantizer does not know (MAXIMUM, MINIMUM)
            [] k = "CONCAT"  -> <<"x", "x">>
            [] k = "CONCAT3" -> <<"x", "x", "x">>
            [] k = "EW1A"    -> <<"act", "aux">>
            [] k = "SAMEIN1" -> <<"act", "aux">>
            [] k = "SAMEIN3" -> <<"act", "aux", "aux", "aux">>
            [] k = "SPLIT"   -> <<"aux", "act">>
            [] OTHER         -> <<"act">>      \* EW1, SAMEIN0, FIXSL, FIXT, UNSUP
NOut(k) == IF k = "SPLIT" THEN 2 ELSE 1
SameIn(k) == k \in {"SAMEIN0", "SAMEIN1", "SAMEIN3", "SPLIT"}
IsConcat(k) == k \in {"CONCAT", "CONCAT3"}
Fixed(k) == k \in {"FIXSL", "FIXT"}
FixClass(k) == IF k = "FIXSL" THEN "SL" ELSE "T"
\* the 16-bit fixed parameters of softmax/logistic and tanh coincide (scale 2^-15, zero point 0, symmetric)
FixClassA(k, a) == IF a = "a16" THEN "X" ELSE FixClass(k)
KindModes(k) == KM[k]
IsSRQ(m) == m.m = "SRQ"
Bits(a) == IF a = "a16" THEN 16 ELSE 8

\* ------------------------------------------------------------------ parameter algebra
\* structural equality of these terms = UniformQuantParams.__eq__ under generic statistics
PTerm(stat, a) == IF stat[1] = "fix" /\ stat[3] = a /\ a \in {"a8a", "a16"}
                  THEN <<"FIXP", stat[2], Bits(a)>>             \* re-derived from the overwritten range: equal
                  ELSE <<"P", stat, a>>
FixPar(cl, a) == <<"FIXP", cl, Bits(a)>>
DtOf(par) == CASE par[1] = "P"    -> (IF par[3] = "a16" THEN "i16" ELSE "i8")
               [] par[1] = "FIXP" -> (IF par[3] = 16 THEN "i16" ELSE "i8")
               [] par[1] = "W"    -> (IF par[3] \in {"w4c", "w4t", "w4ca", "w4ta"} THEN "i4" ELSE "i8")
               [] par[1] = "Wact" -> (IF par[3] = "a16" THEN "i16" ELSE "i8")
               [] par[1] = "B"    -> (IF par[3] = 16 THEN "i64" ELSE "i32")
               [] par[1] = "F16"  -> "f16"
               [] OTHER           -> "f32"
HasData(par) == par[1] \in {"W", "Wact", "B", "F16"}
ParBits(par) == CASE par[1] = "P" -> Bits(par[3]) [] par[1] = "FIXP" -> par[3] [] OTHER -> 8

\* ------------------------------------------------------------------ build phase
CurS == NSub
Acts(s) == {t \in 0..(NT0(s)-1) : Role(s, t) = "act" /\ G[s].tsh[t+1] # <<0, 0>>}
ConstsOf(s, r) == {t \in 0..(NT0(s)-1) : Role(s, t) = r}

\* choice per operand position (uniformly tuples, so that TLC can compare them):
\*   <<"t", id>> existing tensor, <<"absent">> (-1), <<"fresh">> new tensor,
\*   <<"share", s2, t2>> new tensor sharing the buffer of tensor t2 of subgraph s2
T(c) == c[2]
IsT(c) == c[1] = "t"
PosChoices(s, k, j) ==
  LET r == Sig(k)[j]
      \* an existing weight is reusable only by the same kind and position (shapes must agree)
      sameUse(t) == \E i \in 1..NOpsOf(s) : G[s].ops[i].kind = k /\ G[s].ops[i].ins[j] = t
      sameUseAny(s2, t) == \E i \in 1..NOpsOf(s2) : G[s2].ops[i].kind = k /\ G[s2].ops[i].ins[j] = t
      ex(S) == {<<"t", t>> : t \in S}
  IN CASE r = "act" -> ex(Acts(s))
       [] r = "aux" -> {<<"fresh">>}
       [] r = "b?"  -> {<<"absent">>, <<"fresh">>}
                       \cup (IF Share \in {"tensor", "buffer"} THEN ex({t \in ConstsOf(s, "b") : sameUse(t)}) ELSE {})
       [] r = "w"   -> {<<"fresh">>}
                       \cup (IF Share \in {"tensor", "buffer"} THEN ex({t \in ConstsOf(s, "w") : sameUse(t)}) ELSE {})
                       \cup (IF Share = "buffer"
                             THEN UNION {{<<"share", s2, t2>> : t2 \in {t \in ConstsOf(s2, "w") : sameUseAny(s2, t)}} : s2 \in 1..NSub}
                             ELSE {})
       [] r = "x"   -> ex(Acts(s)) \cup ex(ConstsOf(s, "c")) \cup {<<"fresh">>}

RECURSIVE SelTuples(_, _, _)
SelTuples(s, k, j) == IF j > Len(Sig(k)) THEN {<<>>}
                      ELSE {<<c>> \o rest : c \in PosChoices(s, k, j), rest \in SelTuples(s, k, j+1)}

ShapeOf(s, t) == G[s].tsh[t+1]
\* <<ok, output shape tag>> ; tag <<n, w>> stands for [n,2,w,4]; <<0,0>> = usable only as a graph output
OutShape(s, k, sel) ==
  LET acts == {j \in 1..Len(sel) : IsT(sel[j]) /\ Role(s, T(sel[j])) = "act"}
      shs == {ShapeOf(s, T(sel[j])) : j \in acts}
  IN CASE k = "EMB" -> <<TRUE, <<0, 0>>>>
       [] k = "EW1A" -> <<TRUE, <<0, 0>>>>
       [] k \in {"EW2", "UNSUP2"} -> IF acts = {} THEN <<FALSE, <<0, 0>>>>
                       ELSE LET ns == {x[1] : x \in shs} IN
                            <<Cardinality(ns \ {1}) <= 1, <<MaxS(ns), MaxS({x[2] : x \in shs})>>>>
       [] IsConcat(k) -> IF acts = {} THEN <<FALSE, <<0, 0>>>>
                          ELSE LET n == LET RECURSIVE f(_)
                                            f(j) == IF j > Len(sel) THEN 0
                                                    ELSE (IF j \in acts THEN ShapeOf(s, T(sel[j]))[1] ELSE 1) + f(j+1)
                                        IN f(1)
                               IN <<Cardinality({x[2] : x \in shs}) = 1, <<n, (CHOOSE x \in shs : TRUE)[2]>>>>
       [] k = "SPLIT" -> LET x == CHOOSE x \in shs : TRUE IN <<x[2] = 2, <<x[1], 1>>>>
       [] OTHER -> <<TRUE, CHOOSE x \in shs : TRUE>>

AddOp(k, sel) ==
  /\ pc = "build" /\ TotalOps < MaxOps
  /\ LET s == CurS
         osh == OutShape(s, k, sel)
         RECURSIVE res(_, _, _, _, _)
         \* resolve fresh operands into new tensor ids: <<ins, roles, bufs, nbufg>>
         res(j, ins, roles, bufs, nb) ==
           IF j > Len(sel) THEN <<ins, roles, bufs, nb>>
           ELSE LET r0 == Sig(k)[j]
                    r == IF r0 = "b?" THEN "b" ELSE IF r0 = "x" THEN "c" ELSE r0
                    c == sel[j]
                IN IF c[1] = "fresh"
                   THEN res(j+1, Append(ins, Len(roles)), Append(roles, r), Append(bufs, 0), nb)
                   ELSE IF c[1] = "absent" THEN res(j+1, Append(ins, -1), roles, bufs, nb)
                   ELSE IF c[1] = "t" THEN res(j+1, Append(ins, c[2]), roles, bufs, nb)
                   ELSE \* shared buffer with <<s2, t2>>: both tensors end up in one group
                        LET s2 == c[2]  t2 == c[3]
                            g0 == IF s2 = s THEN bufs[t2+1] ELSE G[s2].tbuf[t2+1]
                            g == IF g0 = 0 THEN nb + 1 ELSE g0
                            bufs2 == IF s2 = s /\ g0 = 0 THEN [bufs EXCEPT ![t2+1] = g] ELSE bufs
                        IN res(j+1, Append(ins, Len(roles)), Append(roles, r), Append(bufs2, g), IF g0 = 0 THEN nb + 1 ELSE nb)
         r == res(1, <<>>, G[s].trole, G[s].tbuf, nbufg)
         nout == NOut(k)
         outs == [o \in 1..nout |-> Len(r[2]) + o - 1]
         \* a cross-subgraph share must also tag the other subgraph's tensor
         G1 == [G EXCEPT ![s] = [@ EXCEPT
                   !.ops = Append(@, [kind |-> k, ins |-> r[1], outs |-> outs]),
                   !.trole = r[2] \o [o \in 1..nout |-> "act"],
                   !.tbuf = r[3] \o [o \in 1..nout |-> 0],
                   !.tsh = @ \o [j \in 1..(Len(r[2]) - Len(@)) |-> <<0, 0>>] \o [o \in 1..nout |-> osh[2]]]]
         G2 == [s2 \in 1..NSub |->
                  IF s2 = s THEN G1[s2]
                  ELSE [G1[s2] EXCEPT !.tbuf = [t \in 1..Len(@) |->
                          IF \E j \in 1..Len(sel) : sel[j][1] = "share" /\ sel[j][2] = s2 /\ sel[j][3] = t-1 /\ @[t] = 0
                          THEN r[4] ELSE @[t]]]]
     IN /\ osh[1]
        /\ G' = G2
        /\ nbufg' = r[4]
  /\ UNCHANGED <<mode, inmode, outmode, qsv, prod, cons, order, R, bufw, qi, insts, pc, why>>

EmptySub(nin) == [ops |-> <<>>, trole |-> [j \in 1..nin |-> "act"], tbuf |-> [j \in 1..nin |-> 0],
                  tsh |-> [j \in 1..nin |-> <<1, 2>>], gins |-> [j \in 1..nin |-> j-1], gouts |-> <<>>, sigrev |-> FALSE]

SigRevs == (IF SigOrder = "rev" THEN {} ELSE {FALSE}) \cup (IF SigOrder = "same" THEN {} ELSE {TRUE})
Rev(q) == [k \in 1..Len(q) |-> q[Len(q) - k + 1]]
\* the tensors a signature names, in the signature's own order
SigOuts(g) == IF g.sigrev THEN Rev(g.gouts) ELSE g.gouts
SigIns(g) == IF g.sigrev THEN Rev(g.gins) ELSE g.gins
SigPos(g, n) == [k \in 1..n |-> IF g.sigrev THEN n - k + 1 ELSE k]

NewSub(nin) ==
  /\ pc = "build" /\ NSub < MaxSub /\ (NOpsOf(CurS) >= 1 \/ PassThru) /\ TotalOps < MaxOps
  /\ G' = Append(G, EmptySub(nin))
  /\ UNCHANGED <<mode, inmode, outmode, nbufg, qsv, prod, cons, order, R, bufw, qi, insts, pc, why>>

ConsumersOf(s, t) == {i \in 1..NOpsOf(s) : \E j \in 1..Len(G[s].ops[i].ins) : G[s].ops[i].ins[j] = t}
Produced(s) == UNION {SeqRange(G[s].ops[i].outs) : i \in 1..NOpsOf(s)}
Sinks(s) == {t \in Produced(s) : ConsumersOf(s, t) = {}}
\* every graph input is used (converter normal form): read by an operator, or returned as it is (outs = the output list chosen)
InputsUsed(s, outs) == \A k \in 1..Len(G[s].gins) : ConsumersOf(s, G[s].gins[k]) # {} \/ G[s].gins[k] \in SeqRange(outs)

RECURSIVE OutChoices(_)
\* (a subgraph without operators - an identity signature - returns its inputs)
OutSets(s) == {S \in SUBSET (Produced(s) \cup (IF PassThru THEN SeqRange(G[s].gins) ELSE {})) :
                 Sinks(s) \subseteq S /\ S # {} /\ (Produced(s) = {} \/ S \cap Produced(s) # {})}
\* output lists of subgraph s: ascending, optionally with one output listed a second time at the end
OutLists(s) == (IF Dup = "only" THEN {} ELSE {AscSeq(S) : S \in OutSets(s)})
               \cup (IF Dup = "no" THEN {} ELSE UNION {{Append(AscSeq(S), x) : x \in S} : S \in OutSets(s)})
OutChoices(s) == IF s > NSub THEN {<<>>}
                 ELSE {<<L>> \o rest : L \in OutLists(s), rest \in OutChoices(s+1)}
RECURSIVE ModeChoicesSub(_, _)
ModeChoicesSub(s, i) == IF i > NOpsOf(s) THEN {<<>>}
                        ELSE {<<m>> \o rest : m \in KindModes(G[s].ops[i].kind), rest \in ModeChoicesSub(s, i+1)}
RECURSIVE ModeChoices(_)
ModeChoices(s) == IF s > NSub THEN {<<>>}
                  ELSE {<<ms>> \o rest : ms \in ModeChoicesSub(s, 1), rest \in ModeChoices(s+1)}

\* the state in which quantize() starts on a sealed scenario (G1: graphs with outputs, mc: modes)
Sealed(G1, mc, im, om) ==
  /\ G' = G1
  /\ mode' = mc /\ inmode' = im /\ outmode' = om
  /\ qsv' = [s \in 1..Len(G1) |-> [t \in 1..Len(G1[s].trole) |-> <<"cal", s, t-1>>]]
  /\ prod' = [s \in 1..Len(G1) |-> [t \in 1..Len(G1[s].trole) |-> NoEntry]]
  /\ cons' = [s \in 1..Len(G1) |-> [t \in 1..Len(G1[s].trole) |-> <<>>]]
  /\ R' = [s \in 1..Len(G1) |->
             [ops |-> [i \in 1..Len(G1[s].ops) |-> [ins |-> G1[s].ops[i].ins, outs |-> G1[s].ops[i].outs, orig |-> i-1, qk |-> "-"]],
              outs |-> G1[s].gouts,
              sigout |-> SigOuts(G1[s]),
              dt |-> [t \in 1..Len(G1[s].trole) |-> IF G1[s].trole[t] = "aux" THEN "i32" ELSE "f32"],
              par |-> [t \in 1..Len(G1[s].trole) |-> NoPar],
              nm |-> [t \in 1..Len(G1[s].trole) |-> <<t-1>>],
              shp |-> G1[s].tsh,
              ntens |-> Len(G1[s].trole),
              omap |-> [i \in 1..Len(G1[s].ops) |-> i-1],
              amap |-> <<>>]]
  /\ order' = <<>> /\ bufw' = <<>> /\ qi' = 0 /\ insts' = <<>> /\ pc' = "mat" /\ why' = "none"

\* the tensor table of g renumbered: activations (in allocation order) first, everything else after them
ActsFirst(g) ==
  LET n == Len(g.trole)
      ids == [t \in 1..n |-> t - 1]
      neworder == SelectSeq(ids, LAMBDA t : g.trole[t+1] = "act") \o SelectSeq(ids, LAMBDA t : g.trole[t+1] # "act")
      perm(t) == IF t = -1 THEN -1 ELSE (CHOOSE p \in 1..n : neworder[p] = t) - 1
  IN [ops |-> [i \in 1..Len(g.ops) |-> [kind |-> g.ops[i].kind,
                                         ins |-> [j \in 1..Len(g.ops[i].ins) |-> perm(g.ops[i].ins[j])],
                                         outs |-> [j \in 1..Len(g.ops[i].outs) |-> perm(g.ops[i].outs[j])]]],
      trole |-> [p \in 1..n |-> g.trole[neworder[p]+1]],
      tbuf |-> [p \in 1..n |-> g.tbuf[neworder[p]+1]],
      tsh |-> [p \in 1..n |-> g.tsh[neworder[p]+1]],
      gins |-> [j \in 1..Len(g.gins) |-> perm(g.gins[j])],
      gouts |-> [j \in 1..Len(g.gouts) |-> perm(g.gouts[j])], sigrev |-> g.sigrev]
Layouts == (IF Layout = "actsfirst" THEN {} ELSE {"alloc"}) \cup (IF Layout = "alloc" THEN {} ELSE {"actsfirst"})
Laid(g, lay) == IF lay = "alloc" THEN g ELSE ActsFirst(g)

Seal ==
  /\ pc = "build" /\ (NOpsOf(CurS) >= 1 \/ PassThru)
  /\ \E oc \in {c \in OutChoices(1) : \A s \in 1..NSub : InputsUsed(s, c[s])} : \E mc \in ModeChoices(1) : \E im \in IOModes : \E om \in IOModes : \E lay \in Layouts : \E sr \in SigRevs :
       Sealed([s \in 1..NSub |-> Laid([G[s] EXCEPT !.gouts = oc[s], !.sigrev = sr], lay)], mc, im, om)
  /\ UNCHANGED nbufg

\* ------------------------------------------------------------------ materialiser
WPar(s, t, w) == <<"W", BufOf(s, t), w>>

\* list of <<tensor, isInput, entry>> for operator i of subgraph s, in the order the code emits them;
\* second component: TRUE iff a non-constant tensor needs statistics it does not have (never with injected stats)
MatOp(s, i, q) ==
  LET o == G[s].ops[i]  m == mode[s][i]  id == i-1  k == o.kind
      sig == Sig(k)
      stat(t) == q[t+1]
      nq == Entry(id, "NQ", NoPar)
      outsNQ == [j \in 1..Len(o.outs) |-> <<o.outs[j], FALSE, nq>>]
      insPresent == SelectSeq([j \in 1..Len(o.ins) |-> <<o.ins[j], j>>], LAMBDA x : x[1] # -1)
      allNQ == [j \in 1..Len(insPresent) |-> <<insPresent[j][1], TRUE, nq>>] \o outsNQ
      ac == m.a
      \* ---- min/max algorithm
      isW(j) == k \in WeightKinds /\ j <= Len(sig) /\ sig[j] = "w"
      isB(j) == j <= Len(sig) /\ sig[j] = "b?"
      actPos == CHOOSE j \in 1..Len(sig) : sig[j] \in {"act", "x"}      \* first activation-like operand
      wPos == IF \E j \in 1..Len(sig) : sig[j] = "w" THEN CHOOSE j \in 1..Len(sig) : sig[j] = "w" ELSE 0
      outStatPar(t) == PTerm(stat(t), ac)
      outPar == IF Fixed(k) THEN FixPar(FixClassA(k, ac), ac)
                ELSE IF SameIn(k) THEN PTerm(stat(o.ins[actPos]), ac)
                ELSE outStatPar(o.outs[1])
      inParSRQ(j) ==
        LET t == o.ins[j] IN
        IF IsConcat(k) THEN (IF IsConst(s, t) /\ FixConcat THEN <<"Wact", BufOf(s, t), ac, outStatPar(o.outs[1])>> ELSE outStatPar(o.outs[1]))
        ELSE IF IsConst(s, t) THEN (IF isW(j) THEN WPar(s, t, m.w) ELSE <<"Wact", BufOf(s, t), ac>>)
        ELSE PTerm(stat(t), ac)
      inEntry(j) ==
        LET t == o.ins[j] IN
        IF IsAux(s, t) THEN nq
        ELSE IF m.m = "SRQ" THEN
             IF isB(j) THEN Entry(id, "QT", <<"B", BufOf(s, t), Bits(ac), inParSRQ(actPos), inParSRQ(wPos)>>)
             ELSE IF IsConst(s, t) THEN Entry(id, "QT", inParSRQ(j))
             ELSE Entry(id, "AQ", inParSRQ(j))
        ELSE IF m.m = "DRQ" THEN (IF IsConst(s, t) /\ ~isB(j) THEN Entry(id, "QT", WPar(s, t, m.w)) ELSE nq)
        ELSE (* WO *)            (IF IsConst(s, t) /\ ~isB(j) THEN Entry(id, "ADQ", WPar(s, t, m.w)) ELSE nq)
      outEntry(j) == IF m.m = "SRQ" THEN Entry(id, "ADQ", outPar) ELSE nq
      mm == [j \in 1..Len(insPresent) |-> <<insPresent[j][1], TRUE, inEntry(insPresent[j][2])>>]
            \o [j \in 1..Len(o.outs) |-> <<o.outs[j], FALSE, outEntry(j)>>]
      \* ---- float casting: input, weight, output, bias (aux operands of TCONV are not mentioned at all)
      f16 == LET a == IF k = "TCONV" THEN 3 ELSE 1
                 b == IF k = "TCONV" THEN 4 ELSE 3
             IN << <<o.ins[a], TRUE, nq>>, <<o.ins[wPos], TRUE, Entry(id, "ADQ", <<"F16", BufOf(s, o.ins[wPos])>>)>>,
                   <<o.outs[1], FALSE, nq>> >>
                \o (IF b <= Len(o.ins) /\ o.ins[b] # -1 THEN << <<o.ins[b], TRUE, nq>> >> ELSE <<>>)
  IN IF k \in {"UNSUP", "UNSUP2"} \/ m.m = "NOQ" THEN allNQ
     ELSE IF m.m = "F16" THEN f16
     ELSE mm

\* virtual INPUT / OUTPUT operators of subgraph s (op id -1)
\* (non-float graph inputs / outputs, e.g. lookup indices, are ignored tensors: never quantised)
MatIO(s, q) ==
  [k \in 1..Len(G[s].gins) |-> <<G[s].gins[k], FALSE,
      IF inmode.m = "SRQ" /\ ~IsAux(s, G[s].gins[k]) THEN Entry(-1, "ADQ", PTerm(q[G[s].gins[k]+1], inmode.a)) ELSE Entry(-1, "NQ", NoPar)>>]
  \o
  [k \in 1..Len(G[s].gouts) |-> <<G[s].gouts[k], TRUE,
      IF outmode.m = "SRQ" /\ ~IsAux(s, G[s].gouts[k]) THEN Entry(-1, "AQ", PTerm(q[G[s].gouts[k]+1], outmode.a)) ELSE Entry(-1, "NQ", NoPar)>>]

RECURSIVE ApplyMat(_, _, _, _, _)
ApplyMat(s, L, p, c, ord) ==
  IF L = <<>> THEN <<p, c, ord>>
  ELSE LET x == Head(L)  t == x[1]
           ord2 == IF <<s, t>> \in SeqRange(ord) THEN ord ELSE Append(ord, <<s, t>>)
       IN IF x[2] THEN ApplyMat(s, Tail(L), p, [c EXCEPT ![t+1] = Append(@, x[3])], ord2)
          ELSE ApplyMat(s, Tail(L), [p EXCEPT ![t+1] = x[3]], c, ord2)

\* qi counts materialised operators globally: subgraph by subgraph, real ops then the two virtual ops
\* <<s, i>>: i >= 1 real op, i = 0 the virtual ops of subgraph s, <<0,0>> finished
MatPos == LET RECURSIVE f(_, _)
              f(s, k) == IF s > NSub THEN <<0, 0>>
                         ELSE IF k < NOpsOf(s) THEN <<s, k+1>>
                         ELSE IF k = NOpsOf(s) THEN <<s, 0>>
                         ELSE f(s+1, k - NOpsOf(s) - 1)
          IN f(1, qi)

Materialize ==
  /\ pc = "mat"
  /\ LET mp == MatPos  s == mp[1]  i == mp[2] IN
     IF s = 0 THEN /\ pc' = "bufcheck" /\ qi' = 0
                   /\ UNCHANGED <<qsv, prod, cons, order>>
     ELSE LET L == IF i = 0 THEN MatIO(s, qsv[s]) ELSE MatOp(s, i, qsv[s])
              r == ApplyMat(s, L, prod[s], cons[s], order)
              dup == \E x \in 1..Len(L) : ~L[x][2] /\ prod[s][L[x][1]+1].tr # "none"
          IN IF dup THEN /\ pc' = "raised" /\ why' = "multiple_producers" /\ UNCHANGED <<qsv, prod, cons, order, qi>>
             ELSE
             /\ prod' = [prod EXCEPT ![s] = r[1]] /\ cons' = [cons EXCEPT ![s] = r[2]] /\ order' = r[3]
             /\ qsv' = IF i = 0 THEN qsv
                       ELSE LET o == G[s].ops[i]  m == mode[s][i] IN
                            IF IsSRQ(m) /\ SameIn(o.kind)
                            THEN LET a == o.ins[CHOOSE j \in 1..Len(Sig(o.kind)) : Sig(o.kind)[j] = "act"] IN
                                 [qsv EXCEPT ![s] = [t \in 1..Len(@) |-> IF (t-1) \in SeqRange(o.outs) THEN @[a+1] ELSE @[t]]]
                            ELSE IF IsSRQ(m) /\ Fixed(o.kind)
                            THEN [qsv EXCEPT ![s][o.outs[1]+1] = <<"fix", FixClassA(o.kind, m.a), m.a>>]
                            ELSE qsv
             /\ qi' = qi + 1 /\ pc' = "mat"
  /\ IF pc' = "raised" THEN TRUE ELSE why' = why
  /\ UNCHANGED <<G, mode, inmode, outmode, nbufg, R, bufw, insts>>

\* ------------------------------------------------------------------ buffer sharing check
FloatSrc == {"AQ", "NQ"}
QuantSrc == {"QT", "ADQ"}
CompatE(a, b) ==
  \/ (a.tr = b.tr /\ a.par = b.par)
  \/ /\ ~(a.tr # "NQ" /\ b.tr # "NQ" /\ a.par # b.par /\ ~(FixAQ /\ a.tr = "AQ" /\ b.tr = "AQ"))
     /\ \/ (a.tr \in FloatSrc /\ b.tr \in FloatSrc)
        \/ (a.tr \in QuantSrc /\ b.tr \in QuantSrc)
\* _compatible_tensor_transformation_params
CompatT(s1, t1, s2, t2) ==
  LET p1 == prod[s1][t1+1]  p2 == prod[s2][t2+1]  c1 == cons[s1][t1+1]  c2 == cons[s2][t2+1] IN
  /\ IF p1.tr = "none" \/ p2.tr = "none" THEN p1.tr = p2.tr ELSE CompatE(p1, p2)
  /\ IF c1 = <<>> \/ c2 = <<>> THEN c1 = c2
     ELSE /\ \A k \in 1..Len(c1) : CompatE(c1[k], c1[1])
          /\ \A k \in 1..Len(c2) : CompatE(c2[k], c2[1])
          /\ CompatE(c1[1], c2[1])
\* buffer_to_tensors: per buffer the tensors in order of mention (outputs, then inputs, per op), with repeats
Mentions ==
  LET RECURSIVE f(_, _)
      f(s, i) == IF s > NSub THEN <<>>
                 ELSE IF i > NOpsOf(s) THEN f(s+1, 1)
                 ELSE LET o == G[s].ops[i] IN
                      [j \in 1..Len(o.outs) |-> <<s, o.outs[j]>>]
                      \o SelectSeq([j \in 1..Len(o.ins) |-> <<s, o.ins[j]>>], LAMBDA x : x[2] # -1)
                      \o f(s, i+1)
  IN f(1, 1)
BufCheckOK ==
  LET M == Mentions
      bufs == {BufOf(x[1], x[2]) : x \in SeqRange(M)}
  IN \A b \in bufs :
       LET L == SelectSeq(M, LAMBDA x : BufOf(x[1], x[2]) = b)
       IN Len(L) <= 1 \/ \A k \in 2..Len(L) : CompatT(L[1][1], L[1][2], L[k][1], L[k][2])
BufCheck ==
  /\ pc = "bufcheck"
  /\ IF BufCheckOK THEN pc' = "gen" /\ why' = why ELSE pc' = "raised" /\ why' = "buffer_sharing"
  /\ UNCHANGED <<G, mode, inmode, outmode, nbufg, qsv, prod, cons, order, R, bufw, qi, insts>>

\* ------------------------------------------------------------------ instruction generation
GiProducer(s, t) == IF \E i \in 1..NOpsOf(s) : t \in SeqRange(G[s].ops[i].outs)
                    THEN MinS({i \in 1..NOpsOf(s) : t \in SeqRange(G[s].ops[i].outs)}) - 1 ELSE -1
GiConsumers(s, t) == (IF t \in SeqRange(G[s].gouts) THEN <<-1>> ELSE <<>>) \o AscSeq({i-1 : i \in ConsumersOf(s, t)})
Inst(tr, s, t, p, c, par) == [tr |-> tr, s |-> s, t |-> t, p |-> p, c |-> c, par |-> par]

\* depth-1 groups in order of first member; a consumer joins the first group whose representative equals it
Groups(ce) ==
  LET RECURSIVE f(_, _)
      f(k, acc) ==
        IF k > Len(ce) THEN acc
        ELSE LET e == ce[k]
                 hit == {g \in 1..Len(acc) : acc[g].tr = e.tr /\ acc[g].par = e.par}
             IN IF hit # {} THEN LET g == MinS(hit) IN f(k+1, [acc EXCEPT ![g].cons = Append(@, e.op)])
                ELSE f(k+1, Append(acc, [tr |-> e.tr, par |-> e.par, cons |-> <<e.op>>]))
  IN f(1, <<>>)

RmFirst(sq, e) == IF \E k \in 1..Len(sq) : sq[k] = e
                  THEN LET k == MinS({k \in 1..Len(sq) : sq[k] = e}) IN SubSeq(sq, 1, k-1) \o SubSeq(sq, k+1, Len(sq))
                  ELSE sq
RECURSIVE RemoveAllGuarded(_, _)
RemoveAllGuarded(sq, es) == IF es = <<>> THEN sq ELSE RemoveAllGuarded(RmFirst(sq, Head(es)), Tail(es))
RECURSIVE RemoveAllStrict(_, _)       \* unguarded list.remove: ValueError if absent
RemoveAllStrict(sq, es) == IF es = <<>> THEN <<TRUE, sq>>
                           ELSE IF Head(es) \notin SeqRange(sq) THEN <<FALSE, sq>>
                           ELSE RemoveAllStrict(RmFirst(sq, Head(es)), Tail(es))

\* returns <<ok, instruction list>>
GenInsts(s, t) ==
  LET grp == Groups(cons[s][t+1])
      pe == prod[s][t+1]
      gp == GiProducer(s, t)
      RECURSIVE vopt(_, _, _)
      vopt(k, pcons, acc) ==
        IF k > Len(grp) THEN <<TRUE, pcons, acc>>
        ELSE LET r == grp[k] IN
          IF pe.tr = "ADQ" /\ r.tr = "AQ" /\ pe.par = r.par                    \* DQ/Q elimination
            THEN vopt(k+1, RemoveAllGuarded(pcons, r.cons), Append(acc, Inst("QT", s, t, gp, r.cons, r.par)))
          ELSE IF pe.tr = "ADQ" /\ r.tr = "AQ"                                 \* requantise
            THEN LET rr == IF FixRemove THEN <<TRUE, RemoveAllGuarded(pcons, r.cons)>> ELSE RemoveAllStrict(pcons, r.cons) IN
                 IF ~rr[1] THEN <<FALSE, pcons, acc>>
                 ELSE vopt(k+1, rr[2], acc \o <<Inst("QT", s, t, gp, r.cons, pe.par), Inst("AQ", s, t, gp, r.cons, r.par)>>)
          ELSE IF pe.tr = "ADQ" /\ r.tr = "NQ"                                 \* DQ / no-quant
            THEN vopt(k+1, RemoveAllGuarded(pcons, r.cons), Append(acc, Inst("ADQ", s, t, gp, r.cons, pe.par)))
          ELSE vopt(k+1, pcons, Append(acc, Inst(r.tr, s, t, gp, r.cons, r.par)))
  IN IF pe.tr = "none"
     THEN <<TRUE, [k \in 1..Len(grp) |-> Inst(grp[k].tr, s, t, gp, grp[k].cons, grp[k].par)]>>
     ELSE LET res == vopt(1, GiConsumers(s, t), <<>>) IN
          <<res[1], (IF res[2] # <<>> THEN <<Inst(pe.tr, s, t, gp, res[2], pe.par)>> ELSE <<>>) \o res[3]>>

ValidInsts(L) == ~ ( (\E k \in 1..Len(L) : L[k].tr = "NQ") /\ (\E k \in 1..Len(L) : L[k].tr \in {"QT", "ADQ"}) )

Gen ==
  /\ pc = "gen"
  /\ IF qi >= Len(order) THEN pc' = "done" /\ insts' = <<>> /\ why' = why
     ELSE LET g == GenInsts(order[qi+1][1], order[qi+1][2]) IN
          IF ~g[1] THEN pc' = "raised" /\ why' = "list_remove" /\ insts' = <<>>
          ELSE IF ~ValidInsts(g[2]) THEN pc' = "raised" /\ why' = "both_q_and_unq" /\ insts' = <<>>
          ELSE pc' = "apply" /\ insts' = g[2] /\ why' = why
  /\ UNCHANGED <<G, mode, inmode, outmode, nbufg, qsv, prod, cons, order, R, bufw, qi>>

\* ------------------------------------------------------------------ performer
CntSuffix(n) == CASE n = 1 -> "_1" [] n = 2 -> "_2" [] n = 3 -> "_3" [] n = 4 -> "_4" [] OTHER -> "_n"
PyInsert(sq, pos0, e) == LET p == IF pos0 > Len(sq) THEN Len(sq) ELSE pos0
                         IN SubSeq(sq, 1, p) \o <<e>> \o SubSeq(sq, p+1, Len(sq))

NextTensor == /\ pc = "apply" /\ insts = <<>>
              /\ qi' = qi + 1 /\ pc' = "gen"
              /\ UNCHANGED <<G, mode, inmode, outmode, nbufg, qsv, prod, cons, order, R, bufw, insts, why>>

ApplySkip == /\ pc = "apply" /\ insts # <<>> /\ Head(insts).tr = "NQ"
             /\ insts' = Tail(insts)
             /\ UNCHANGED <<G, mode, inmode, outmode, nbufg, qsv, prod, cons, order, R, bufw, qi, pc, why>>

\* quantize_tensor on tensor t of subgraph s: buffer data (only if the tensor has its own non-zero buffer and the
\* parameters carry data), dtype, annotation
\* the annotation written into the flatbuffer: float16 casting writes none; a constant quantised with another
\* tensor's parameters carries exactly those
Annot(par) == IF par[1] = "F16" THEN NoPar ELSE IF par[1] = "Wact" /\ Len(par) = 4 THEN par[4] ELSE par
QTensor(Rs, s, t, par) == [Rs EXCEPT !.dt[t+1] = DtOf(par), !.par[t+1] = Annot(par)]
BufWrite(s, t, par) == IF t < NT0(s) /\ IsConst(s, t) /\ HasData(par) THEN Append(bufw, <<BufOf(s, t), par>>) ELSE bufw

ApplyQT == /\ pc = "apply" /\ insts # <<>> /\ Head(insts).tr = "QT"
           /\ LET I == Head(insts) IN
                /\ R' = [R EXCEPT ![I.s] = QTensor(@, I.s, I.t, I.par)]
                /\ bufw' = BufWrite(I.s, I.t, I.par)
           /\ insts' = Tail(insts)
           /\ UNCHANGED <<G, mode, inmode, outmode, nbufg, qsv, prod, cons, order, qi, pc, why>>

ApplyInsert ==
  /\ pc = "apply" /\ insts # <<>> /\ Head(insts).tr \in {"AQ", "ADQ"}
  /\ LET I == Head(insts)
         s == I.s
         Rs == R[s]
         omap == Rs.omap  amap == Rs.amap  ops == Rs.ops
         MapProd(p) == IF (~FixPerf /\ p = 0) \/ p < 0 THEN -1
                       ELSE IF p < Len(omap) THEN omap[p+1]
                       ELSE amap[p - Len(omap) + 1]
         MapCons(c) == IF c = -1 THEN (IF FixPerf THEN -1 ELSE omap[Len(omap)]) ELSE omap[c+1]
         pr == MapProd(I.p)
         cs == [k \in 1..Len(I.c) |-> MapCons(I.c[k])]
         newT == Rs.ntens
         \* the graph-output pseudo consumer (-1) pulls the insertion point right behind the producer
         opid == Max2(pr + 1, MinS(SeqRange(cs)))
         rew == [k \in 1..Len(ops) |->
                   IF (k-1) \in SeqRange(cs)
                   THEN [ops[k] EXCEPT !.ins = [j \in 1..Len(@) |-> IF @[j] = I.t THEN newT ELSE @[j]]]
                   ELSE ops[k]]
         newop == [ins |-> <<I.t>>, outs |-> <<newT>>, orig |-> -1, qk |-> IF I.tr = "AQ" THEN "Q" ELSE "DQ"]
         origCons == SeqRange(I.c)
         minOrig == MinS(origCons)
         rest == Tail(insts)
         upd == [k \in 1..Len(rest) |->
                   IF \E c \in SeqRange(rest[k].c) : c \in origCons
                   THEN [rest[k] EXCEPT !.p = Len(omap) + Len(amap), !.t = newT]
                   ELSE rest[k]]
         outs2 == IF FixPerf /\ -1 \notin origCons THEN Rs.outs
                  ELSE [k \in 1..Len(Rs.outs) |-> IF Rs.outs[k] = I.t THEN newT ELSE Rs.outs[k]]
         base == Rs.nm[I.t+1] \o <<IF I.tr = "AQ" THEN "_quantized" ELSE "_dequant">>
         taken == SeqRange(Rs.nm)
         newName == IF ~FixUniq \/ base \notin taken THEN base
                    ELSE base \o <<CntSuffix(CHOOSE n \in 1..(Len(Rs.nm)+1) :
                                     /\ base \o <<CntSuffix(n)>> \notin taken
                                     /\ \A j \in 1..(n-1) : base \o <<CntSuffix(j)>> \in taken)>>
         R0 == [Rs EXCEPT !.nm = Append(@, newName),
                          !.shp = Append(@, @[I.t+1])]
         R1 == IF I.tr = "AQ"
               THEN [R0 EXCEPT !.dt = Append(@, DtOf(I.par)), !.par = Append(@, I.par)]
               ELSE [R0 EXCEPT !.dt = Append([@ EXCEPT ![I.t+1] = DtOf(I.par)], "f32"),
                               !.par = Append([@ EXCEPT ![I.t+1] = Annot(I.par)], NoPar)]
         amap2 == IF FixPerf THEN Append([k \in 1..Len(amap) |-> IF amap[k] >= opid THEN amap[k] + 1 ELSE amap[k]], opid)
                  ELSE Append(amap, opid)
         omap2 == IF FixPerf THEN [k \in 1..Len(omap) |-> IF omap[k] >= opid THEN omap[k] + 1 ELSE omap[k]]
                  ELSE [k \in 1..Len(omap) |->
                          IF (minOrig >= 0 /\ k - 1 >= minOrig) \/ (minOrig = -1 /\ k = Len(omap))
                          THEN omap[k] + 1 ELSE omap[k]]
         sig2 == IF FixSig /\ outs2 # Rs.outs
                 THEN [k \in 1..Len(Rs.sigout) |-> IF Rs.sigout[k] = I.t THEN newT ELSE Rs.sigout[k]]
                 ELSE Rs.sigout
     IN /\ R' = [R EXCEPT ![s] = [R1 EXCEPT !.ops = PyInsert(rew, opid, newop), !.outs = outs2, !.sigout = sig2,
                                             !.ntens = newT + 1, !.amap = amap2, !.omap = omap2]]
        /\ bufw' = IF I.tr = "ADQ" THEN BufWrite(s, I.t, I.par) ELSE bufw
        /\ insts' = upd
  /\ UNCHANGED <<G, mode, inmode, outmode, nbufg, qsv, prod, cons, order, qi, pc, why>>

Stutter == pc \in {"done", "raised"} /\ UNCHANGED vars

Init ==
  /\ \E nin \in 1..MaxIns : G = <<EmptySub(nin)>>
  /\ mode = <<>> /\ inmode = NOQ /\ outmode = NOQ /\ nbufg = 0
  /\ qsv = <<>> /\ prod = <<>> /\ cons = <<>> /\ order = <<>>
  /\ R = <<>> /\ bufw = <<>> /\ qi = 0 /\ insts = <<>> /\ pc = "build" /\ why = "none"

Build == \/ \E k \in Kinds : \E sel \in SelTuples(CurS, k, 1) : AddOp(k, sel)
         \/ \E nin \in 1..MaxIns : NewSub(nin)
         \/ Seal
Run == Materialize \/ BufCheck \/ Gen \/ NextTensor \/ ApplySkip \/ ApplyQT \/ ApplyInsert
Next == Build \/ Run \/ Stutter
Spec == Init /\ [][Next]_vars

\* ------------------------------------------------------------------ properties (see GraphProps.tla)
\* abstract observable views handed to the property module
Writes(b) == SelectSeq(bufw, LAMBDA x : x[1] = b)
GX == [s \in 1..NSub |->
        [ops |-> [i \in 1..NOpsOf(s) |-> [kind |-> G[s].ops[i].kind, ins |-> G[s].ops[i].ins, outs |-> G[s].ops[i].outs,
                                           sig |-> <<G[s].ops[i].kind, i>>]],
         trole |-> G[s].trole, gins |-> G[s].gins, gouts |-> G[s].gouts,
         siginpos |-> SigPos(G[s], Len(G[s].gins)), sigoutpos |-> SigPos(G[s], Len(G[s].gouts)),
         nm |-> [t \in 1..NT0(s) |-> <<t-1>>], shp |-> G[s].tsh,
         data |-> [t \in 1..NT0(s) |-> <<"orig", BufOf(s, t-1)>>],
         dt0 |-> [t \in 1..NT0(s) |-> IF Role(s, t-1) = "aux" THEN "i32" ELSE "f32"]]]
RX == [s \in 1..Len(R) |->
        [ops |-> [k \in 1..Len(R[s].ops) |->
                    [ins |-> R[s].ops[k].ins, outs |-> R[s].ops[k].outs, orig |-> R[s].ops[k].orig, qk |-> R[s].ops[k].qk,
                     sig |-> IF R[s].ops[k].orig = -1 THEN <<"ins", 0>>
                             ELSE <<G[s].ops[R[s].ops[k].orig+1].kind, R[s].ops[k].orig+1>>]],
         outs |-> R[s].outs, gins |-> G[s].gins, sigin |-> SigIns(G[s]), sigout |-> R[s].sigout,
         dt |-> R[s].dt, par |-> R[s].par, nm |-> R[s].nm, shp |-> R[s].shp,
         cst |-> [t \in 1..Len(R[s].dt) |-> t <= NT0(s) /\ (IsConst(s, t-1) \/ IsAux(s, t-1))],
         data |-> [t \in 1..NT0(s) |-> LET w == Writes(BufOf(s, t-1)) IN
                                       IF w = <<>> THEN <<"orig", BufOf(s, t-1)>> ELSE w[Len(w)][2]],
         wrok |-> [t \in 1..NT0(s) |-> LET w == Writes(BufOf(s, t-1)) IN
                                       w # <<>> /\ \A k \in 1..Len(w) : Annot(w[k][2]) = R[s].par[t] /\ DtOf(w[k][2]) = R[s].dt[t]],
         idxok |-> TRUE]]
GP == INSTANCE GraphProps WITH G <- GX, R <- RX

Terminal == pc \in {"done", "raised"}
Returned == pc = "done"
\* C01 structural half, also at every intermediate state of the performer
InvTopo == pc \in {"gen", "apply", "done"} => \A s \in 1..NSub : GP!TopoOK(s) /\ GP!SingleProducer(s)
InvWellFormed == Returned => \A s \in 1..NSub : GP!WellFormed(s)
InvSkeleton == Returned => \A s \in 1..NSub : GP!SkeletonModKF(s)
InvSkeletonStrict == Returned => \A s \in 1..NSub : GP!Skeleton(s)
InvModes == Returned => \A s \in 1..NSub : GP!ModesRespected(s)
InvParams == Returned => \A s \in 1..NSub : GP!ParamRelations(s)
InvBytes == Returned => GP!SharedConstOK
NeverRaises == pc # "raised"

\* ---- dump of terminal states for the spec -> code replay (one JSON line per terminal state)
Dump == [scn |-> [subs |-> G, mode |-> mode, inmode |-> inmode, outmode |-> outmode],
         pc |-> pc, why |-> why,
         R |-> [s \in 1..Len(R) |-> [ops |-> R[s].ops, outs |-> R[s].outs, dt |-> R[s].dt, par |-> R[s].par,
                                       nm |-> R[s].nm, data |-> RX[s].data]],
         props |-> [topo |-> InvTopo, wf |-> InvWellFormed, skel |-> InvSkeleton, kf7 |-> ~InvSkeletonStrict /\ InvSkeleton,
                    modes |-> InvModes, params |-> InvParams, bytes |-> InvBytes]]
DumpC == Terminal => PrintT(<<"DUMP", ToJson(Dump)>>)
=============================================================================
