------------------------------- MODULE Policy -------------------------------
(***************************************************************************)
(* The acceptance protocol of one (operator selector, config, algorithm)    *)
(* point of the policy lattice (C13) as a small state machine, and the       *)
(* trace specification that validates the events OBSERVED for every point:  *)
(*                                                                         *)
(*  construct -> ctor_error | built                                         *)
(*  built     -> update -> refused (ValueError, store unchanged) | accepted *)
(*  accepted  -> quantize -> raised | returned                              *)
(*  returned  -> run -> prepare_failed | prepared -> sane | insane          *)
(*  for the selector '*': update always accepts; then resolution either     *)
(*  skips the operator (it must stay untouched) or applies the config       *)
(*  (then the same obligations hold)                                        *)
(*                                                                         *)
(* C13: an accepted point never ends in raised / prepare_failed / insane;   *)
(* every other combination ends in ctor_error or refused, by ValueError     *)
(* only, with the recipe store unchanged; under '*' an unsupported pair is  *)
(* skipped and the operator left untouched - and '*' applies the config to   *)
(* an operator exactly when an update naming that operator accepts it        *)
(* (StarConsistent), also on a Quantizer whose '*' rule has been replaced    *)
(* many times before (reused traces: built -> accepted -> applied | skipped).*)
(***************************************************************************)
EXTENDS Integers, Sequences, FiniteSets, TLC, Json, IOUtils

Traces == JsonDeserialize(IOEnv.OBS_FILE)     \* sequence of [id, star, events: seq of [ev, exc, rules]]
VARIABLES tid, l, st, rules
vars == <<tid, l, st, rules>>
T == Traces[tid]
Ev == T.events[l]

Step(from, ev, to) == st = from /\ l <= Len(T.events) /\ Ev.ev = ev /\ st' = to /\ l' = l + 1 /\ rules' = Ev.rules /\ UNCHANGED tid

Next == \/ Step("start", "ctor_error", "ctor_error")
        \/ Step("start", "built", "built")
        \/ Step("built", "refused", "refused")
        \/ Step("built", "accepted", "accepted")
        \/ Step("accepted", "skipped", "skipped")           \* '*' only: resolution falls back to no-quantize for this operator
        \/ Step("accepted", "applied", "accepted2")
        \/ Step("accepted", "quantize_raised", "raised")
        \/ Step("accepted", "returned", "returned")
        \/ Step("accepted2", "quantize_raised", "raised")
        \/ Step("accepted2", "returned", "returned")
        \/ Step("skipped", "untouched", "done_skipped")
        \/ Step("skipped", "touched", "bad_skipped")
        \/ Step("returned", "prepare_failed", "prepare_failed")
        \/ Step("returned", "prepared", "prepared")
        \/ Step("prepared", "sane", "sane")
        \/ Step("prepared", "insane", "insane")
Init == tid \in 1..Len(Traces) /\ l = 1 /\ st = "start" /\ rules = 0
Spec == Init /\ [][Next]_vars

\* ---- C13 on the observed trace
Final == l > Len(T.events)
OnlyValueError == \A k \in 1..(l-1) : T.events[k].ev \in {"ctor_error", "refused"} => T.events[k].exc = "ValueError"
RefusalNoop == st = "refused" => rules = 0
StarAlwaysAccepts == (T.star /\ st = "refused") => FALSE
NoLateFailure == st \notin {"raised", "prepare_failed", "insane", "bad_skipped"}
\* every resolution event carries `specific`: "yes" / "no" = an update naming the operator accepts / refuses this config
StarConsistent == \A k \in 1..(l-1) : /\ (T.events[k].ev = "applied" => T.events[k].specific # "no")
                                      /\ (T.events[k].ev = "skipped" => T.events[k].specific # "yes")
Verdict == [id |-> T.id, consumed |-> l - 1, len |-> Len(T.events), st |-> st,
            only_value_error |-> OnlyValueError, refusal_noop |-> RefusalNoop, star_accepts |-> StarAlwaysAccepts,
            no_late_failure |-> NoLateFailure, star_consistent |-> StarConsistent]
\* emitted at the last state of each trace (the trace is accepted iff consumed = len)
Emit == (Final \/ ~ENABLED Next) => PrintT(<<"VERDICT", ToJson(Verdict)>>)
=============================================================================
