------------------------------ MODULE Validate ------------------------------
(***************************************************************************)
(* model_validator.ComparisonResult.add_new_signature_results (M7 of        *)
(* DESIGN): the per-tensor comparison of one signature is partitioned into  *)
(* inputs / outputs / constants / intermediates by successive `pop`s from   *)
(* the dictionary of compared tensors (names present in BOTH models'        *)
(* subgraph, string tensors skipped).  Each pop raises KeyError when the    *)
(* name is not (or no longer) in the dictionary.                            *)
(*                                                                         *)
(* The scenario (which names exist in the reference and in the target       *)
(* model, which are signature inputs / outputs / constants of the           *)
(* reference) is chosen nondeterministically in Init within `Names`.        *)
(***************************************************************************)
EXTENDS Integers, Sequences, FiniteSets, TLC

CONSTANTS Names,
          Fixes     \* "inout": a signature input that is also an output is filed once, under inputs (F25 repaired; before, the
                    \*          second pop raised KeyError)

VARIABLES ref, tgt, ins, outs, consts,      \* scenario
          result, gin, gout, gconst, ginter, pc, why,
          flat                               \* what get_all_tensor_results() / save() last returned (NoFlat before the first call)
vars == <<ref, tgt, ins, outs, consts, result, gin, gout, gconst, ginter, pc, why, flat>>

NoFlat == {"#not taken yet"}      \* (a set, like every other value of `flat`)
\* converter normal form: inputs, outputs and constants are tensors of the reference subgraph;
\* a constant is neither a signature input nor produced (so not an output)
WellFormedScenario ==
  /\ ins \subseteq ref /\ outs \subseteq ref /\ consts \subseteq ref
  /\ consts \cap ins = {} /\ consts \cap outs = {}
  /\ ins # {} /\ outs # {}

Init == /\ ref \in SUBSET Names /\ tgt \in SUBSET Names
        /\ ins \in SUBSET Names /\ outs \in SUBSET Names /\ consts \in SUBSET Names
        /\ WellFormedScenario
        /\ result = ref \cap tgt
        /\ gin = {} /\ gout = {} /\ gconst = {} /\ ginter = {} /\ pc = "inputs" /\ why = "none" /\ flat = NoFlat

\* pop a whole group; KeyError as soon as one name is missing
Pop(names, grp, nextpc, site) ==
  IF names \subseteq result
  THEN /\ result' = result \ names /\ grp' = names /\ pc' = nextpc /\ why' = why
  ELSE /\ pc' = "raised" /\ why' = site /\ UNCHANGED <<result, grp>>

PopInputs == pc = "inputs" /\ Pop(ins, gin, "outputs", "keyerror_input") /\ UNCHANGED <<ref, tgt, ins, outs, consts, gout, gconst, ginter, flat>>
OutsToFile == IF "inout" \in Fixes THEN outs \ ins ELSE outs
PopOutputs == pc = "outputs" /\ Pop(OutsToFile, gout, "constants", "keyerror_output") /\ UNCHANGED <<ref, tgt, ins, outs, consts, gin, gconst, ginter, flat>>
PopConstants == pc = "constants" /\ Pop(consts, gconst, "rest", "keyerror_constant") /\ UNCHANGED <<ref, tgt, ins, outs, consts, gin, gout, ginter, flat>>
Rest == /\ pc = "rest" /\ ginter' = result /\ result' = {} /\ pc' = "done"
        /\ UNCHANGED <<ref, tgt, ins, outs, consts, gin, gout, gconst, why, flat>>
\* get_all_tensor_results() / save() on the finished result: reads - the four groups stay as they are, any number of times
Flatten == /\ pc = "done" /\ flat' = gin \cup gout \cup gconst \cup ginter
           /\ UNCHANGED <<ref, tgt, ins, outs, consts, result, gin, gout, gconst, ginter, pc, why>>
Stutter == pc \in {"done", "raised"} /\ UNCHANGED vars
Next == PopInputs \/ PopOutputs \/ PopConstants \/ Rest \/ Flatten \/ Stutter
Spec == Init /\ [][Next]_vars

\* ------------------------------------------------------------------ C18 (structure)
Groups == <<gin, gout, gconst, ginter>>
\* every tensor present in both models' subgraph: exactly one entry, filed under exactly one group
PartitionOK == pc = "done" =>
  /\ \A i, j \in 1..4 : i # j => Groups[i] \cap Groups[j] = {}
  /\ gin \cup gout \cup gconst \cup ginter = ref \cap tgt
  /\ gin = ins /\ gout = outs \ ins /\ gconst = consts
\* the flat view holds every compared tensor once; taking it changes nothing (PartitionOK keeps holding after Flatten)
FlatOK == flat # NoFlat => flat = ref \cap tgt
\* when does the partition exist at all: the API returns iff no pop fails; for a quantized version of the reference model
\* (every reference tensor keeps its name) it always returns - also when an input is returned as an output
QuantizedPair == ref \subseteq tgt
ReturnsForQuantizedPair == QuantizedPair => pc # "raised"
=============================================================================
