------------------------------- MODULE Recipe -------------------------------
(***************************************************************************)
(* The recipe store of a Quantizer (M1 of DESIGN; recipe_manager.py):       *)
(* an ordered map  regex -> list of rules,  with the documented semantics   *)
(*   - a rule for an operator already present under the regex replaces it   *)
(*     IN PLACE, a rule for '*' RESETS the regex's list (position kept),    *)
(*   - regexes are scanned in order of FIRST insertion, rules in list order,*)
(*   - the LAST applicable rule wins; applicable = regex found in scope,    *)
(*     targets the operator or '*', config passes the algorithm's support   *)
(*     check for that operator (no_quantize always passes);                 *)
(*   - a rule for a specific operator whose config fails the check is       *)
(*     REFUSED (ValueError) and leaves the store unchanged.                 *)
(* Regex matching and the support table are CONSTANTS computed by the       *)
(* harness (re.search on the concrete strings / the implementation's own    *)
(* check): C11 is about precedence, the table itself is C13's subject.      *)
(*                                                                         *)
(* hist is an observation variable (one concrete history reaching the       *)
(* state), hidden from TLC's fingerprint by VIEW, so that every reachable   *)
(* STORE is expanded once and every (store, letter) transition is emitted   *)
(* once for the spec -> code replay.                                        *)
(***************************************************************************)
EXTENDS Integers, Sequences, FiniteSets, TLC, Json

CONSTANTS
  Regexes, OpSels, CfgAlgs,   \* alphabet: regex ids x operator selectors x <<cfg id, algorithm>>
  Scopes, QueryOps,           \* where resolution is queried
  Matches,                    \* [Regexes \X Scopes -> BOOLEAN]          (re.search)
  Supported,                  \* [CfgAlgs \X QueryOps -> BOOLEAN]        (algorithm's check for that operator)
  HasWeightCfg,               \* [cfg id -> BOOLEAN]: exported op_config carries weight_tensor_config
  ActCfg,                     \* [cfg id -> BOOLEAN]: the config quantises activations with integer compute (static range): needs statistics
  ScopePairs,                 \* pairs <<scope as calibration sees an operator, scope as quantization sees it>> (C10)
  Lists,                      \* sequence of rule lists that load_quantization_recipe may be called with
  MaxLen,                     \* history bound
  Fixes                       \* "wcfg": from_dict tolerates a missing weight config (F12); "noqcfg": no_quantize rules keep their config on load (F14)

VARIABLES rules, hist, last
vars == <<rules, hist, last>>
View == rules

Star == "*"
Noq == "noq"
Dflt == "dflt"
Item(o, ca) == [op |-> o, cfg |-> ca[1], alg |-> ca[2]]
IdxOf(r) == IF \E i \in 1..Len(rules) : rules[i].regex = r THEN CHOOSE i \in 1..Len(rules) : rules[i].regex = r ELSE 0

\* ---- the support check as the API applies it at update time (specific operator only)
Accepts(o, ca) == o = Star \/ ca[2] = Noq \/ Supported[<<ca, o>>]

\* the store after adding item (o, ca) under regex r to store rs
AddTo(rs, r, o, ca) ==
  LET i == IF \E k \in 1..Len(rs) : rs[k].regex = r THEN CHOOSE k \in 1..Len(rs) : rs[k].regex = r ELSE 0
      it == Item(o, ca)
  IN IF o = Star
     THEN IF i = 0 THEN Append(rs, [regex |-> r, items |-> <<it>>]) ELSE [rs EXCEPT ![i].items = <<it>>]
     ELSE IF i = 0 THEN Append(rs, [regex |-> r, items |-> <<it>>])
     ELSE IF \E k \in 1..Len(rs[i].items) : rs[i].items[k].op = o
          THEN [rs EXCEPT ![i].items = [k \in 1..Len(@) |-> IF @[k].op = o THEN it ELSE @[k]]]
          ELSE [rs EXCEPT ![i].items = Append(@, it)]

Add(r, o, ca) ==
  /\ Len(hist) < MaxLen
  /\ IF Accepts(o, ca) THEN rules' = AddTo(rules, r, o, ca) /\ last' = "ok"
                       ELSE rules' = rules /\ last' = "refused"
  /\ hist' = Append(hist, <<r, o, ca>>)

\* ---- export / load (get_quantization_recipe / load_quantization_recipe)
Export(rs) == LET RECURSIVE f(_)
                  f(i) == IF i > Len(rs) THEN <<>>
                          ELSE [k \in 1..Len(rs[i].items) |-> <<rs[i].regex, rs[i].items[k].op, <<rs[i].items[k].cfg, rs[i].items[k].alg>>>>] \o f(i+1)
              IN f(1)
\* what a rule turns into when read back
LoadedCA(ca) == IF ca[2] = Noq /\ "noqcfg" \notin Fixes THEN <<Dflt, Noq>> ELSE ca
\* reading a rule back raises (KeyError) when its exported config has no weight_tensor_config
LoadRaises(ca) == ~HasWeightCfg[ca[1]] /\ "wcfg" \notin Fixes /\ ~(ca[2] = Noq /\ "noqcfg" \notin Fixes)
\* <<status, store>>: loading a rule list into an empty store, rule by rule (not atomic)
LoadAll(L) == LET RECURSIVE f(_, _)
                  f(k, rs) == IF k > Len(L) THEN <<"ok", rs>>
                              ELSE IF LoadRaises(L[k][3]) THEN <<"keyerror", rs>>
                              ELSE IF ~Accepts(L[k][2], LoadedCA(L[k][3])) THEN <<"refused", rs>>
                              ELSE f(k+1, AddTo(rs, L[k][1], L[k][2], LoadedCA(L[k][3])))
              IN f(1, <<>>)

\* ---- the documented resolution: last applicable rule wins
Applicable(it, op) == (it.op = op \/ it.op = Star) /\ (it.alg = Noq \/ Supported[<<<<it.cfg, it.alg>>, op>>])
Resolve(rs, op, sc) ==
  LET RECURSIVE f(_, _, _)
      f(i, k, acc) == IF i > Len(rs) THEN acc
                      ELSE IF k > Len(rs[i].items) THEN f(i+1, 1, acc)
                      ELSE IF Matches[<<rs[i].regex, sc>>] /\ Applicable(rs[i].items[k], op)
                           THEN f(i, k+1, <<rs[i].items[k].alg, rs[i].items[k].cfg>>)
                           ELSE f(i, k+1, acc)
  IN f(1, 1, <<Noq, Dflt>>)
ResolveAll(rs) == [q \in QueryOps \X Scopes |-> Resolve(rs, q[1], q[2])]

\* load_quantization_recipe(Lists[i]): the store is reset, then the rules are added one by one; the first rule that is
\* refused (or whose config cannot be rebuilt) raises and leaves the rules before it loaded (not atomic)
Load(i) ==
  /\ Len(hist) < MaxLen
  /\ LET l == LoadAll(Lists[i]) IN rules' = l[2] /\ last' = l[1]
  /\ hist' = Append(hist, <<"load", i>>)

Init == rules = <<>> /\ hist = <<>> /\ last = "init"
Next == \/ \E r \in Regexes, o \in OpSels, ca \in CfgAlgs : Add(r, o, ca)
        \/ \E i \in 1..Len(Lists) : Load(i)
Spec == Init /\ [][Next]_vars

\* need_calibration(): some rule of the store carries a static-range config (whatever its algorithm or operator)
NeedCal(rs) == \E i \in 1..Len(rs) : \E k \in 1..Len(rs[i].items) : ActCfg[rs[i].items[k].cfg]

\* ------------------------------------------------------------------ properties (design level)
\* calibration is asked for whenever some operator can resolve to a static-range config (C10: statistics are never missing)
NeedCalSound == \A q \in QueryOps \X Scopes : LET r == Resolve(rules, q[1], q[2]) IN (r[1] # Noq /\ ActCfg[r[2]]) => NeedCal(rules)
UniqueOpPerRegex == \A i \in 1..Len(rules) : \A j, k \in 1..Len(rules[i].items) :
                       j # k => rules[i].items[j].op # rules[i].items[k].op
UniqueRegex == \A i, j \in 1..Len(rules) : i # j => rules[i].regex # rules[j].regex
\* a '*' rule is alone in its list at the moment it is added (later specific rules may follow it)
StarFirst == \A i \in 1..Len(rules) : \A k \in 2..Len(rules[i].items) : rules[i].items[k].op # Star
NonEmptyLists == \A i \in 1..Len(rules) : rules[i].items # <<>>
\* action properties: regex order is order of first insertion; a refused update changes nothing
RegexOrderStable == [][ hist'[Len(hist')][1] # "load" =>
                           \A i \in 1..Len(rules) : i <= Len(rules') /\ rules'[i].regex = rules[i].regex ]_vars
\* a load starts from the empty store: its result does not depend on what was there before
LoadResets == [][ hist'[Len(hist')][1] = "load" => rules' = LoadAll(Lists[hist'[Len(hist')][2]])[2] ]_vars
RefusalIsNoop == [][ (last' = "refused" /\ hist'[Len(hist')][1] # "load") => rules' = rules ]_vars
\* resolution never yields an unsupported (alg, cfg) for the operator
ResolvedIsSupported == \A q \in QueryOps \X Scopes :
                          LET r == Resolve(rules, q[1], q[2]) IN r[1] = Noq \/ Supported[<<<<r[2], r[1]>>, q[1]>>]
\* C12 at design level: a saved recipe reloads to the same store and resolves identically
RoundTrip == LET l == LoadAll(Export(rules)) IN l[1] = "ok" /\ l[2] = rules
RoundTripResolves == LET l == LoadAll(Export(rules)) IN l[1] = "ok" => ResolveAll(l[2]) = ResolveAll(rules)

\* C10: calibration and quantization resolve every operator identically, because the two scope strings of an
\* operator are matched alike by every regex
ScopesMatchAlike == \A p \in ScopePairs : \A r \in Regexes : Matches[<<r, p[1]>>] = Matches[<<r, p[2]>>]
SelectionAgrees == \A p \in ScopePairs : \A op \in QueryOps : Resolve(rules, op, p[1]) = Resolve(rules, op, p[2])

\* ---- emitted once per expanded (store, letter) transition: the spec -> code replay follows these
Trans == [hist |-> hist, last |-> last, export |-> Export(rules),
          resolve |-> [q \in QueryOps \X Scopes |-> Resolve(rules, q[1], q[2])],
          load |-> LoadAll(Export(rules))[1]]
EmitT == PrintT(<<"TRANS", ToJson([hist |-> hist, last |-> last, export |-> Export(rules),
                                  resolve |-> {<<q, Resolve(rules, q[1], q[2])>> : q \in QueryOps \X Scopes},
                                  load |-> LoadAll(Export(rules))[1],
                                  rt |-> (LoadAll(Export(rules))[2] = rules), needcal |-> NeedCal(rules)])>>)
=============================================================================
