-------------------------------- MODULE Api --------------------------------
(***************************************************************************)
(* Call histories on one or two Quantizer objects sharing caller-owned      *)
(* objects (M5 of DESIGN; quantizer.py).                                    *)
(*                                                                         *)
(* Caller-owned heap: the model bytes, the recipe lists handed to           *)
(* load_quantization_recipe, the datasets, and every calibration result     *)
(* (returned by calibrate(), then owned by the caller, possibly handed to   *)
(* either Quantizer, as previous_calibration_result or to quantize()).      *)
(* A calibration result is a VALUE TERM  <<recipe at calibration time,      *)
(* dataset, value of the previous result>>  plus the set of recipes whose   *)
(* quantize() call has written into it (without the "qsvcopy" repair the    *)
(* materialiser aliases and overwrites statistics in the caller's           *)
(* dictionary - DESIGN F3).                                                 *)
(*                                                                         *)
(* C14:  ArgsUntouched    - every caller-owned object keeps the value it    *)
(*                          had when created / returned;                    *)
(*       OutputIsFunction - the bytes returned by quantize() are a function *)
(*                          of (model, exported recipe, value of the        *)
(*                          calibration result) only - and of the policy    *)
(*                          installed process-wide by load_config_policy,   *)
(*                          which is part of the configuration, not of the  *)
(*                          history of any one Quantizer.                   *)
(***************************************************************************)
EXTENDS Integers, Sequences, FiniteSets, TLC, Json

CONSTANTS
  NQ,           \* number of Quantizer objects (1..2)
  Recipes,      \* recipe ids that can be loaded
  Policies,     \* config-check policies that load_config_policy() can install: PROCESS-GLOBAL state shared by all Quantizers
  LoadOutcome,  \* [<<recipe, policy>> -> <<"ok" | "raise", recipe id the store holds afterwards>>]  (load is not atomic: a rule the
                \*   policy refuses raises after the rules before it were added)
  NeedsCal,     \* [recipe id -> BOOLEAN]  (decided from the rule list alone)
  StatsOf,      \* [<<recipe id, policy>> -> set of operators the recipe selects under the policy in force WHEN IT IS USED]
  WritesStats,  \* [<<recipe id, policy>> -> BOOLEAN]: quantising aliases/overwrites statistics (same-scale / fixed-range ops selected)
  Datasets,     \* dataset ids
  EmptyData,    \* the datasets without samples: calibrating on one returns the (empty) entries created at initialisation only
  Names,        \* model names QuantizationResult.save() may be called with (one folder)
  MaxLen,       \* history length
  MaxCals,      \* bound on calibration results alive
  Fixes         \* "qsvcopy": quantize() works on a copy of the calibration result (F3 repaired)

NoRecipe == "none"
MaxRes == 2      \* results the caller keeps (the first ones)
VARIABLES
  policy,     \* the policy registered for min/max quantisation (global)
  rec,        \* [1..NQ -> recipe id or NoRecipe]
  quantized,  \* [1..NQ -> BOOLEAN]  (a result exists: validate() is possible)
  cals,       \* heap: seq of [val, writes]: val = value term of the result, writes = set of recipes that wrote into it
  snap,       \* ghost: seq of value terms at return time
  outs,       \* ghost: set of <<recipe, value term of the calibration result as SEEN by this call, value at return time>>
  ress,       \* heap: seq of the QuantizationResult objects returned by quantize() (caller-owned, frozen): [rec, pol, cal]
  fs,         \* the save folder: [Names -> [m, rc]]: index of the result whose model the file <name>.tflite holds / whose recipe
              \*   <name>_recipe.json holds (0 = no such file). save() writes both and refuses to overwrite an existing model
              \*   file; export_model() writes the model file only, unconditionally
  scar,       \* [1..NQ -> outcome of the most recent call on that Quantizer that RAISED, or "none"]: a failed call changes nothing
              \*   else in this specification; keeping it in the state (and the VIEW) makes TLC explore - and the replay execute -
              \*   every continuation AFTER a failed call as well, so "a call that raises leaves the object as it was" is checked
  hist, last  \* hist: one entry per call, ending with the outcome predicted for that call
vars == <<policy, rec, quantized, cals, snap, outs, ress, fs, scar, hist, last>>
View == <<policy, rec, quantized, cals, outs, ress, fs, scar>>
Raised(o) == o \notin {"ok", "empty"}
Scar(q, kind) == scar' = IF Raised(last') THEN [scar EXCEPT ![q] = last'] ELSE scar

Qs == 1..NQ
NoCal == 0
\* the value of the {} that calibrate() returns under a recipe that needs no calibration: a caller-owned object like any other result
Empty == <<"empty">>
\* the value a calibration result currently has (as any reader sees it)
Seen(k) == IF k = NoCal THEN << <<"nocal">>, {} >> ELSE <<cals[k].val, cals[k].writes>>
\* operators for which a calibration value term holds statistics (a resumed result keeps those of its base)
RECURSIVE Covered(_)
Covered(v) == IF v = <<"nocal">> \/ v = Empty THEN {}
              ELSE (IF v[3] \in EmptyData THEN {} ELSE StatsOf[<<v[1], v[2]>>]) \cup Covered(v[4][1])
Pristine(k) == IF k = NoCal THEN << <<"nocal">>, {} >> ELSE <<snap[k], {}>>

Load(q, r) ==
  /\ rec' = [rec EXCEPT ![q] = LoadOutcome[<<r, policy>>][2]]
  /\ last' = (IF LoadOutcome[<<r, policy>>][1] = "ok" THEN "ok" ELSE "raise:refused")
  /\ UNCHANGED <<policy, quantized, cals, snap, outs, ress, fs>>
  /\ Scar(q, "load")
  /\ hist' = Append(hist, <<"load", q, r, last'>>)

\* Quantizer.load_config_policy: replaces the policy for every Quantizer of the process
LoadPolicy(q, p) ==
  /\ policy' = p /\ last' = "ok"
  /\ UNCHANGED <<rec, quantized, cals, snap, outs, ress, fs, scar>>
  /\ hist' = Append(hist, <<"policy", q, p, last'>>)

\* calibrate(data d, previous_calibration_result = cals[prev]) on quantizer q
Calibrate(q, d, prev) ==
  /\ prev \in 0..Len(cals)
  /\ IF rec[q] = NoRecipe \/ ~NeedsCal[rec[q]]
     THEN /\ last' = "empty"                      \* returns a fresh {} without running; the caller keeps it while there is room
          /\ IF Len(cals) < MaxCals
             THEN cals' = Append(cals, [val |-> Empty, writes |-> {}]) /\ snap' = Append(snap, Empty)
             ELSE UNCHANGED <<cals, snap>>
     ELSE /\ Len(cals) < MaxCals
          /\ LET v == <<rec[q], policy, d, Seen(prev)>> IN      \* resumes from the value the previous result has NOW
             /\ cals' = Append(cals, [val |-> v, writes |-> {}])
             /\ snap' = Append(snap, v)
          /\ last' = "ok"
  /\ UNCHANGED <<policy, rec, quantized, outs, ress, fs, scar>>
  /\ hist' = Append(hist, <<"calibrate", q, d, prev, last'>>)

Quantize(q, k) ==
  /\ k \in 0..Len(cals)
  /\ IF rec[q] = NoRecipe THEN last' = "raise:norecipe" /\ UNCHANGED <<quantized, cals, outs, ress>>
     ELSE IF NeedsCal[rec[q]] /\ k = NoCal THEN last' = "raise:nocal" /\ UNCHANGED <<quantized, cals, outs, ress>>   \* (an EMPTY result is not "no result": its statistics are missing, next clause)
     ELSE IF NeedsCal[rec[q]] /\ ~(StatsOf[<<rec[q], policy>>] \subseteq Covered(cals[k].val))
          THEN last' = "raise:missing" /\ UNCHANGED <<quantized, cals, outs, ress>>     \* statistics of another recipe: rejected
     ELSE /\ outs' = outs \cup {<<rec[q], policy, Seen(k), Pristine(k)>>}
          /\ ress' = IF Len(ress) < MaxRes THEN Append(ress, [rec |-> rec[q], pol |-> policy, cal |-> k]) ELSE ress   \* later results are dropped by the caller
          /\ quantized' = [quantized EXCEPT ![q] = TRUE]
          /\ cals' = IF k # NoCal /\ "qsvcopy" \notin Fixes /\ WritesStats[<<rec[q], policy>>]
                     THEN [cals EXCEPT ![k].writes = @ \cup {rec[q]}] ELSE cals
          /\ last' = "ok"
  /\ UNCHANGED <<policy, rec, snap, fs>>
  /\ Scar(q, "quantize")
  /\ hist' = Append(hist, <<"quantize", q, k, last'>>)

Validate(q) ==
  /\ last' = IF quantized[q] THEN "ok" ELSE "raise:noresult"
  /\ UNCHANGED <<policy, rec, quantized, cals, snap, outs, ress, fs>>
  /\ Scar(q, "validate")
  /\ hist' = Append(hist, <<"validate", q, last'>>)

\* result.save(folder, n) on the r-th result returned so far (q = the Quantizer that is idle meanwhile; results are
\* caller-owned objects and remember the recipe that was in force when quantize() made them)
Save(q, r, n) ==
  /\ r \in 1..Len(ress)
  /\ IF fs[n].m # 0 THEN last' = "raise:exists" /\ UNCHANGED fs
     ELSE last' = "ok" /\ fs' = [fs EXCEPT ![n] = [m |-> r, rc |-> r]]
  /\ UNCHANGED <<policy, rec, quantized, cals, snap, outs, ress, scar>>
  /\ hist' = Append(hist, <<"save", q, r, n, last'>>)

\* result.export_model(<folder>/<n>.tflite): the model file is (over)written, nothing else; never refused
Export(q, r, n) ==
  /\ r \in 1..Len(ress)
  /\ last' = "ok" /\ fs' = [fs EXCEPT ![n].m = r]
  /\ UNCHANGED <<policy, rec, quantized, cals, snap, outs, ress, scar>>
  /\ hist' = Append(hist, <<"export", q, r, n, last'>>)

Init == /\ policy = "P0" /\ rec = [q \in Qs |-> NoRecipe] /\ quantized = [q \in Qs |-> FALSE]
        /\ cals = <<>> /\ snap = <<>> /\ outs = {} /\ scar = [q \in Qs |-> "none"] /\ ress = <<>> /\ fs = [n \in Names |-> [m |-> 0, rc |-> 0]] /\ hist = <<>> /\ last = "init"
Next == /\ Len(hist) < MaxLen
        /\ \E q \in Qs : \/ \E r \in Recipes : Load(q, r)
                         \/ \E p \in Policies : (p # policy /\ LoadPolicy(q, p))
                         \/ \E d \in Datasets, prev \in 0..MaxCals : Calibrate(q, d, prev)
                         \/ \E k \in 0..MaxCals : Quantize(q, k)
                         \/ Validate(q)
                         \/ (q = 1 /\ \E r \in 1..MaxRes, n \in Names : Save(q, r, n) \/ Export(q, r, n))
Spec == Init /\ [][Next]_vars

\* ------------------------------------------------------------------ C14
\* caller-owned calibration results keep the value they had when calibrate() returned them
ArgsUntouched == \A k \in 1..Len(cals) : cals[k].val = snap[k] /\ cals[k].writes = {}
\* every quantize() call saw the pristine value of its calibration result: the output is a function of
\* (model, recipe, calibration result) and not of the calls made before
OutputIsFunction == \A o \in outs : o[3] = o[4]

\* a saved pair is the model and the recipe of ONE result, and results keep the recipe / policy they were made under
\* (export_model may later replace the model file alone: then, and only then, the two files stem from different results)
SavedPairOfOneResult == \A n \in Names : /\ fs[n].m \in 0..Len(ress) /\ fs[n].rc \in 0..Len(ress)
                                         /\ (fs[n].rc # 0 => fs[n].m # 0)          \* a recipe file never stands alone
\* save() never overwrites: a call refused for an existing name changes no file; a recipe file, once written, is never replaced
SaveNeverOverwrites == [][\A n \in Names : (fs[n].rc # 0 => fs'[n].rc = fs[n].rc) /\ (last' = "raise:exists" => fs' = fs)]_vars

EmitH == PrintT(<<"HIST", ToJson([hist |-> hist, last |-> last])>>)
=============================================================================
