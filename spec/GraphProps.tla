------------------------------ MODULE GraphProps ------------------------------
(***************************************************************************)
(* The listed properties C01, C02, C03, C04 (relations), C15 as predicates  *)
(* over ABSTRACT OBSERVABLE graph state only (never over the bookkeeping of *)
(* the implementation-shaped specification).  The same module is           *)
(* instantiated                                                            *)
(*   - by Pipeline.tla  (design states: every reachable state of the model) *)
(*   - by Observed.tla  (states projected from real flatbuffers written by  *)
(*     the implementation), so TLC evaluates identical predicates on both.  *)
(*                                                                         *)
(* G[s]  input graph of subgraph s:                                         *)
(*   ops  : seq of [kind, ins, outs, sig]     sig = identity of code+options*)
(*   trole: role per tensor  act | w | b | c | aux                          *)
(*   gins, gouts, nm (names), shp (shapes), data (buffer content tag),      *)
(*   dt0 (dtype per tensor)                                                 *)
(* R[s]  output graph:                                                      *)
(*   ops  : seq of [ins, outs, orig, qk, sig]  orig = index of the original *)
(*          operator or -1 for an inserted one, qk = "Q" | "DQ" | "-"       *)
(*   outs, gins, sigin, sigout, dt, par, nm, shp, cst, data, idxok          *)
(* mode[s][i] resolved mode of operator i; inmode / outmode for the virtual *)
(* INPUT / OUTPUT operators.                                                *)
(***************************************************************************)
EXTENDS Integers, Sequences, FiniteSets

VARIABLES G, R, mode, inmode, outmode

LOCAL NoPar == <<"none">>
LOCAL SeqRange(s) == {s[k] : k \in 1..Len(s)}
NT0(s) == Len(G[s].trole)
NT(s) == Len(R[s].dt)
NOps0(s) == Len(G[s].ops)
ROps(s) == R[s].ops

IntTypes == {"i4", "i8", "i16", "i32", "i64"}
ADt(a) == IF a = "a16" THEN "i16" ELSE "i8"
WDt(w) == IF w \in {"w4c", "w4t", "w4ca", "w4ta"} THEN "i4" ELSE "i8"
BDt(a) == IF a = "a16" THEN "i64" ELSE "i32"
WSym(w) == w \in {"w8c", "w8t", "w4c", "w4t"}
WChan(w) == w \in {"w8c", "w4c", "w8ca", "w4ca"}
ASym(a) == a \in {"a8s", "a16"}

\* ------------------------------------------------------------------ C01
InRange(s) ==
  /\ \A k \in 1..Len(ROps(s)) :
       /\ \A j \in 1..Len(ROps(s)[k].ins) : ROps(s)[k].ins[j] \in -1..(NT(s)-1)
       /\ \A j \in 1..Len(ROps(s)[k].outs) : ROps(s)[k].outs[j] \in 0..(NT(s)-1)
  /\ \A k \in 1..Len(R[s].outs) : R[s].outs[k] \in 0..(NT(s)-1)
  /\ \A k \in 1..Len(R[s].gins) : R[s].gins[k] \in 0..(NT(s)-1)
  /\ \A k \in 1..Len(R[s].sigin) : R[s].sigin[k] \in 0..(NT(s)-1)
  /\ \A k \in 1..Len(R[s].sigout) : R[s].sigout[k] \in 0..(NT(s)-1)
  /\ R[s].idxok
ProducerPos(s, t) == {k \in 1..Len(ROps(s)) : t \in SeqRange(ROps(s)[k].outs)}
IsGraphIn(s, t) == t \in SeqRange(R[s].gins)
IsConstT(s, t) == t \in 0..(NT(s)-1) /\ R[s].cst[t+1]
\* each operand is a graph input, a constant, or produced by an EARLIER operator
TopoOK(s) == \A k \in 1..Len(ROps(s)) : \A j \in 1..Len(ROps(s)[k].ins) :
               LET t == ROps(s)[k].ins[j] IN
               t = -1 \/ IsGraphIn(s, t) \/ IsConstT(s, t) \/ \E p \in ProducerPos(s, t) : p < k
SingleProducer(s) ==
  /\ \A t \in 0..(NT(s)-1) : Cardinality(ProducerPos(s, t)) <= 1
  /\ \A k \in 1..Len(ROps(s)) : \A i, j \in 1..Len(ROps(s)[k].outs) : i # j => ROps(s)[k].outs[i] # ROps(s)[k].outs[j]
UniqueNames(s) == \A t1, t2 \in 1..NT(s) : t1 # t2 => R[s].nm[t1] # R[s].nm[t2]
WellFormed(s) == InRange(s) /\ TopoOK(s) /\ SingleProducer(s) /\ UniqueNames(s)

\* ------------------------------------------------------------------ C02
\* contract the inserted operators: follow an inserted op's output back to its input
InsertedProducer(s, t) == {k \in 1..Len(ROps(s)) : ROps(s)[k].orig = -1 /\ ROps(s)[k].outs = <<t>> /\ Len(ROps(s)[k].ins) = 1}
RECURSIVE RootD(_, _, _)
RootD(s, t, d) == IF t < NT0(s) THEN t
                  ELSE IF d = 0 \/ InsertedProducer(s, t) = {} THEN -2
                  ELSE RootD(s, ROps(s)[CHOOSE k \in InsertedProducer(s, t) : TRUE].ins[1], d - 1)
Root(s, t) == IF t = -1 THEN -1 ELSE RootD(s, t, 8)
OrigOps(s) == SelectSeq(ROps(s), LAMBDA o : o.orig # -1)
\* (a) contracting the inserted operators yields the input operators, wired to the same original tensors
SkelOps(s) ==
  LET origs == OrigOps(s) IN
  /\ Len(origs) = NOps0(s)
  /\ \A i \in 1..NOps0(s) :
       /\ origs[i].orig = i-1
       /\ origs[i].sig = G[s].ops[i].sig                         \* same operator, same options
       /\ [j \in 1..Len(origs[i].ins) |-> Root(s, origs[i].ins[j])] = G[s].ops[i].ins
       /\ origs[i].outs = G[s].ops[i].outs
\* (b) no original tensor renamed, reshaped or dropped
SkelTensors(s) ==
  /\ NT(s) >= NT0(s)
  /\ \A t \in 1..NT0(s) : R[s].nm[t] = G[s].nm[t] /\ R[s].shp[t] = G[s].shp[t]
\* (c) number and order of inputs / outputs, each output denotes (the quantised or dequantised form of) the same tensor
SkelIO(s) ==
  /\ R[s].gins = G[s].gins
  /\ Len(R[s].outs) = Len(G[s].gouts)
  /\ \A k \in 1..Len(R[s].outs) : Root(s, R[s].outs[k]) = G[s].gouts[k]
\* (d) names and shapes of the outputs
SkelOutShape(s, k) == LET t == R[s].outs[k] IN t \in 0..(NT(s)-1) => R[s].shp[t+1] = G[s].shp[G[s].gouts[k]+1]
SkelOutName(s, k) == LET t == R[s].outs[k] IN t \in 0..(NT(s)-1) => R[s].nm[t+1] = G[s].nm[G[s].gouts[k]+1]
SkelIONames(s) == Len(R[s].outs) = Len(G[s].gouts) => \A k \in 1..Len(R[s].outs) : SkelOutName(s, k) /\ SkelOutShape(s, k)
\* (e) every signature entry denotes the tensor of the corresponding subgraph input/output
\* (G[s].siginpos[e] / sigoutpos[e]: position of signature entry e's tensor among the subgraph inputs / outputs of the INPUT model)
SkelSig(s) ==
  /\ Len(R[s].sigin) = Len(G[s].siginpos) /\ Len(R[s].sigout) = Len(G[s].sigoutpos)
  /\ \A e \in 1..Len(R[s].sigin) : G[s].siginpos[e] \in 1..Len(R[s].gins) /\ R[s].sigin[e] = R[s].gins[G[s].siginpos[e]]
  /\ \A e \in 1..Len(R[s].sigout) : G[s].sigoutpos[e] \in 1..Len(R[s].outs) /\ R[s].sigout[e] = R[s].outs[G[s].sigoutpos[e]]
\* (f) model I/O stays float32 unless a rule covers INPUT / OUTPUT
\*     (a non-float input / output, e.g. lookup indices, keeps its own dtype)
SkelIOType(s) ==
  /\ inmode.m = "NOQ" => \A k \in 1..Len(R[s].gins) : R[s].dt[R[s].gins[k]+1] = G[s].dt0[G[s].gins[k]+1]
  /\ outmode.m = "NOQ" => \A k \in 1..Len(R[s].outs) :
        (R[s].outs[k] \in 0..(NT(s)-1) /\ k <= Len(G[s].gouts)) => R[s].dt[R[s].outs[k]+1] = G[s].dt0[G[s].gouts[k]+1]
Skeleton(s) == SkelOps(s) /\ SkelTensors(s) /\ SkelIO(s) /\ SkelIONames(s) /\ SkelSig(s) /\ SkelIOType(s)

\* Known finding F7 (recorded, not repaired; /verif/known_findings.json): when a QUANTIZE/DEQUANTIZE is inserted
\* at graph output k, the output becomes the inserted tensor, named <original>_quantized / <original>_dequant.
\* The clause that fails is exactly SkelOutName(s, k), and only for such an output.
KF7(s, k) == R[s].outs[k] >= NT0(s) /\ InsertedProducer(s, R[s].outs[k]) # {}
SkelIONamesModKF(s) == Len(R[s].outs) = Len(G[s].gouts) =>
                         \A k \in 1..Len(R[s].outs) : SkelOutShape(s, k) /\ (SkelOutName(s, k) \/ KF7(s, k))
KF7Hit(s) == Len(R[s].outs) = Len(G[s].gouts) /\ \E k \in 1..Len(R[s].outs) : ~SkelOutName(s, k) /\ KF7(s, k)
SkeletonModKF(s) == SkelOps(s) /\ SkelTensors(s) /\ SkelIO(s) /\ SkelIONamesModKF(s) /\ SkelSig(s) /\ SkelIOType(s)

\* ------------------------------------------------------------------ C03
RoleOf(s, t) == LET r == Root(s, t) IN IF r \in 0..(NT0(s)-1) THEN G[s].trole[r+1] ELSE "?"
\* the tensor is the output of an inserted DEQUANTIZE whose input has dtype d
ViaDQ(s, t, d) == /\ t >= NT0(s) /\ R[s].dt[t+1] = "f32"
                  /\ \E k \in InsertedProducer(s, t) : ROps(s)[k].qk = "DQ" /\ R[s].dt[ROps(s)[k].ins[1]+1] = d
OperandOK(s, m, kind, j, t) ==
  LET r == RoleOf(s, t)  d == R[s].dt[t+1] IN
  IF r = "aux" THEN t < NT0(s) /\ d = G[s].dt0[t+1] /\ R[s].par[t+1] = NoPar     \* never quantised
  ELSE CASE m.m = "NOQ" -> (t < NT0(s) /\ d = G[s].dt0[t+1]) \/ (t >= NT0(s) /\ d = "f32")
         [] m.m = "SRQ" -> CASE r = "w" -> d = WDt(m.w)
                             [] r = "b" -> d = BDt(m.a)
                             [] OTHER   -> d = ADt(m.a)
         [] m.m = "DRQ" -> IF r = "w" THEN t < NT0(s) /\ d = WDt(m.w) ELSE d = "f32"
         [] m.m = "WO"  -> IF r = "w" THEN ViaDQ(s, t, WDt(m.w)) ELSE d = "f32"
         [] m.m = "F16" -> IF r = "w" THEN ViaDQ(s, t, "f16") ELSE d = "f32"
         [] OTHER -> FALSE
OpModeOK(s, k) ==
  LET o == ROps(s)[k]  i == o.orig + 1  m == mode[s][i]  kind == G[s].ops[i].kind IN
  /\ \A j \in 1..Len(o.ins) : o.ins[j] # -1 => OperandOK(s, m, kind, j, o.ins[j])
  /\ \A j \in 1..Len(o.outs) : R[s].dt[o.outs[j]+1] = (IF m.m = "SRQ" THEN ADt(m.a) ELSE G[s].dt0[o.outs[j]+1])
  \* constants of an untouched operator are byte-identical
  /\ m.m = "NOQ" => \A j \in 1..Len(o.ins) :
        LET t == o.ins[j] IN (t # -1 /\ t < NT0(s) /\ R[s].cst[t+1]) => R[s].data[t+1] = G[s].data[t+1]
InsertedOK(s, k) ==
  LET o == ROps(s)[k]  ti == o.ins[1]  to == o.outs[1] IN
  IF o.qk = "Q" THEN /\ R[s].dt[to+1] \in IntTypes /\ R[s].par[to+1] # NoPar
                     /\ (R[s].dt[ti+1] = "f32" \/ (R[s].dt[ti+1] \in IntTypes /\ R[s].par[ti+1] # NoPar))
  ELSE /\ R[s].dt[to+1] = "f32"
       /\ (R[s].dt[ti+1] = "f16" \/ (R[s].dt[ti+1] \in IntTypes /\ R[s].par[ti+1] # NoPar))
ModesRespected(s) ==
  /\ \A k \in 1..Len(ROps(s)) :
       IF ROps(s)[k].orig # -1 THEN ROps(s)[k].orig + 1 \in 1..NOps0(s) /\ OpModeOK(s, k) ELSE InsertedOK(s, k)
  \* a float tensor carries no annotation, an integer tensor written by quantisation carries one
  /\ \A t \in 1..NT(s) : R[s].dt[t] = "f32" => R[s].par[t] = NoPar

\* ------------------------------------------------------------------ C04 (relations between annotations)
ParamRelations(s) ==
  \A k \in 1..Len(ROps(s)) :
    LET o == ROps(s)[k] IN
    o.orig # -1 =>
      LET i == o.orig + 1  m == mode[s][i]  kind == G[s].ops[i].kind
          acts == {j \in 1..Len(o.ins) : o.ins[j] # -1 /\ RoleOf(s, o.ins[j]) \in {"act", "c"}}
      IN m.m = "SRQ" =>
           /\ kind \in {"SAMEIN0", "SAMEIN1", "SAMEIN3", "SPLIT"} =>
                \A j \in acts : \A jo \in 1..Len(o.outs) : R[s].par[o.outs[jo]+1] = R[s].par[o.ins[j]+1]
           /\ kind \in {"CONCAT", "CONCAT3"} =>
                \A j \in acts : R[s].par[o.ins[j]+1] = R[s].par[o.outs[1]+1]

\* ------------------------------------------------------------------ C15 (bytes agree with annotation)
\* data tag of a constant: <<"orig", ..>> while untouched, otherwise the parameters it was rewritten under
SharedConstOK ==
  \A s \in 1..Len(R) : \A t \in 1..NT0(s) :
    (R[s].cst[t] /\ G[s].trole[t] # "aux") =>
      IF R[s].data[t] = G[s].data[t]
      THEN R[s].dt[t] = G[s].dt0[t] /\ R[s].par[t] = NoPar             \* float bytes are read as float
      ELSE R[s].dt[t] # "f32" /\ R[s].wrok[t]                            \* rewritten once, under this tensor's params
=============================================================================
