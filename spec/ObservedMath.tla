---------------------------- MODULE ObservedMath ----------------------------
(***************************************************************************)
(* code -> spec for the arithmetic laws of C17: integer results OBSERVED    *)
(* from the library (uniform_quantize, uniform_dequantize,                  *)
(* tensor_zp_scale_from_min_max called with parameters exactly as the       *)
(* library produces them, dtype included) are loaded from JSON and TLC      *)
(* evaluates the laws on them, one total verdict per observation.           *)
(***************************************************************************)
EXTENDS Integers, Sequences, FiniteSets, TLC, Json, IOUtils

Obs == JsonDeserialize(IOEnv.OBS_FILE)
VARIABLE tid
Cur == Obs[tid]

InRange(s, lo, hi) == \A i \in 1..Len(s) : s[i] \in lo..hi
NonDecreasing(s) == \A i \in 1..(Len(s)-1) : s[i] <= s[i+1]

\* "zs"   zero point produced for a range: in the integer range, 0 when symmetric
\* "rt"   quantize(dequantize(q)) = q for every code q of the (narrow) range
\* "mono" codes of an ascending input are non-decreasing and inside the (narrow) range; the first `below` inputs lie
\*        below the representable range (down to -3e38) and the last `above` ones above it: they saturate
\* "chan" changing the parameters of channel c changes only the codes of channel c
Law == CASE Cur.kind = "zs"   -> Cur.zp \in Cur.lo..Cur.hi /\ (Cur.sym => Cur.zp = 0) /\ Cur.zpok
         [] Cur.kind = "rt"   -> Cur.back = Cur.codes /\ InRange(Cur.back, Cur.lo, Cur.hi)
         [] Cur.kind = "mono" -> /\ NonDecreasing(Cur.qs) /\ InRange(Cur.qs, Cur.lo, Cur.hi)
                                 /\ \A i \in 1..Cur.below : Cur.qs[i] = Cur.lo
                                 /\ \A i \in (Len(Cur.qs) - Cur.above + 1)..Len(Cur.qs) : Cur.qs[i] = Cur.hi
         [] Cur.kind = "chan" -> /\ Len(Cur.q1) = Len(Cur.q2)
                                 /\ \A i \in 1..Len(Cur.q1) : Cur.ch[i] # Cur.c => Cur.q1[i] = Cur.q2[i]
         [] OTHER -> FALSE

Init == tid \in 1..Len(Obs)
Next == UNCHANGED tid
Spec == Init /\ [][Next]_tid
Emit == PrintT(<<"VERDICT", tid, Law>>)
=============================================================================
