---------------------------- MODULE PipelineTrace ----------------------------
(***************************************************************************)
(* Trace specification for the transformation performer: the events the     *)
(* guarded hook in transformation_performer._apply_single_transformation    *)
(* writes - one per applied instruction, AFTER the id maps were updated:    *)
(* operator list, graph outputs, _original_op_id_map, _added_op_id_map -    *)
(* are validated against Pipeline.tla's ApplyQT / ApplyInsert actions.      *)
(* The instruction plan the generator hands to the performer (hook H4: per  *)
(* tensor, in application order, the transformations with their producer    *)
(* and consumers) is bound to Gen: the instructions the specification       *)
(* generates for the k-th tensor must be the k-th entry of the plan.        *)
(* Materialize, BufCheck, NextTensor, ApplySkip are silent steps            *)
(* (bounded by the scenario: they are deterministic and finitely many).     *)
(* A trace is accepted iff the behaviour reaches pc = "done" having         *)
(* consumed every event, each event matching the specification's state      *)
(* field by field - including the bookkeeping the final model cannot show.  *)
(***************************************************************************)
EXTENDS PipelineFrom

Traces == JsonDeserialize(IOEnv.TRACE_FILE)    \* Traces[i] = sequence of events of scenario i
Plans == JsonDeserialize(IOEnv.PLAN_FILE)      \* Plans[i] = the plan of scenario i: seq of [sub, insts: seq of <<name, tensor, producer, consumers>>]
VARIABLES ti, l
tvars == <<vars, ti, l>>

Ev == Traces[ti][l]
\* the state after the instruction equals the logged one
Bind(s, tr) ==
  /\ l <= Len(Traces[ti])
  /\ Ev.sub = s - 1 /\ Ev.tr = tr
  /\ [k \in 1..Len(R'[s].ops) |-> <<R'[s].ops[k].ins, R'[s].ops[k].outs>>] = Ev.ops
  /\ R'[s].outs = Ev.outs
  /\ R'[s].omap = Ev.omap /\ R'[s].amap = Ev.amap
  /\ l' = l + 1 /\ ti' = ti

TraceQT == ApplyQT /\ Bind(Head(insts).s, "QUANTIZE_TENSOR")
TraceInsert == ApplyInsert /\ Bind(Head(insts).s, IF Head(insts).tr = "AQ" THEN "ADD_QUANTIZE" ELSE "ADD_DEQUANTIZE")
TrName(tr) == CASE tr = "NQ" -> "NO_QUANTIZE" [] tr = "QT" -> "QUANTIZE_TENSOR" [] tr = "AQ" -> "ADD_QUANTIZE" [] OTHER -> "ADD_DEQUANTIZE"
\* the instructions generated for the tensor at position k of the first-mention order are entry k of the logged plan
\* (no plan is logged when the generator itself raised: then nothing is bound)
PlanMatches(k, I) ==
  LET P == Plans[ti] IN
  P = <<>> \/ ( /\ k <= Len(P) /\ I # <<>> /\ P[k].sub = I[1].s - 1 /\ Len(P[k].insts) = Len(I)
                /\ \A j \in 1..Len(I) : /\ P[k].insts[j][1] = TrName(I[j].tr) /\ P[k].insts[j][2] = I[j].t
                                          /\ P[k].insts[j][3] = I[j].p /\ P[k].insts[j][4] = I[j].c )
TraceGen == Gen /\ UNCHANGED <<ti, l>> /\ (pc' = "apply" => PlanMatches(qi + 1, insts'))
Silent == (Materialize \/ BufCheck \/ NextTensor \/ ApplySkip) /\ UNCHANGED <<ti, l>>
TraceNext == TraceQT \/ TraceInsert \/ TraceGen \/ Silent
TraceInit == \E i \in 1..Len(Scns) : InitFromIdx(i) /\ ti = i /\ l = 1
TraceSpec == TraceInit /\ [][TraceNext]_tvars

\* one verdict per trace, at the state where it ends (terminal, or stuck because the next event does not match)
Ended == pc \in {"done", "raised"} \/ ~ENABLED TraceNext
TVerdict == [ti |-> ti, consumed |-> l - 1, len |-> Len(Traces[ti]), pc |-> pc, why |-> why,
             accepted |-> (pc \in {"done", "raised"} /\ l - 1 = Len(Traces[ti]))]
EmitT == Ended => PrintT(<<"TVERDICT", ToJson(TVerdict)>>)
=============================================================================
