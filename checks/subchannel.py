"""C01, block-wise part: the EMULATED_SUBCHANNEL rewrite (spec/Subchannel.tla) replayed into the implementation.

design    : TLC enumerates every chain  x -> [unknown op] -> FC_1 .. FC_n -> [unknown op]  (n <= MaxFC; each FC with / without
            bias, with / without fused RELU, block-wise or float) and applies one rewrite action per block-wise weight; C01's
            clauses (GraphWF.tla), the kept graph inputs / outputs, the untouched other operators and the rewired output
            are invariants of every state.
spec->code: every terminal state is realised (flatbuffer with 3-D activations, one scoped block-wise weight-only rule per selected
            FULLY_CONNECTED, skip_checks), quantize() is called, and the returned graph is projected: TLC (ObservedSubchannel.tla)
            evaluates C01's clauses on it, the interpreter must allocate and invoke it (when it runs the float model), and the
            operator list / wiring / names / weight dtype are compared with the predicted terminal state (a difference is a
            specification-drift note, not a violation: C01 does not prescribe the shape of the replacement).
"""
import json
import os

import numpy as np

from harness import common, pipecheck, project, tlc

INVS = ["InvWellFormed", "InvIO", "InvOthersKept", "InvOutputRewired", "InvCount", "InvOutcome"]
CODE = {"UNK": "ABS", "FC": "FULLY_CONNECTED"}
D = 8       # feature size: activations [1, 2, D], weights [D, D], block size 4


def build(cfg, seed, rank=3):
  """Float flatbuffer of the chain, tensors in the specification's order and with its names."""
  from ai_edge_litert import schema_py_generated as S
  from tensorflow.lite.tools import flatbuffer_utils
  rng = np.random.default_rng(seed)
  m = S.ModelT()
  m.version = 3
  m.description = b"subchannel chain"
  m.buffers = [S.BufferT()]
  m.operatorCodes = []
  codes = {}

  def opcode(b):
    if b not in codes:
      oc = S.OperatorCodeT()
      oc.builtinCode = b
      oc.deprecatedBuiltinCode = b if b < 127 else 127
      oc.version = 1
      codes[b] = len(m.operatorCodes)
      m.operatorCodes.append(oc)
    return codes[b]

  sg = S.SubGraphT()
  sg.name = b"main"
  sg.tensors, sg.operators = [], []

  def tensor(name, shape, data=None):
    t = S.TensorT()
    t.name = name.encode()
    t.shape = list(shape)
    t.type = S.TensorType.FLOAT32
    t.buffer = 0
    t.quantization = S.QuantizationParametersT()      # converter normal form: every tensor carries an (empty) quantization table
    if data is not None:
      b = S.BufferT()
      b.data = np.frombuffer(np.asarray(data, np.float32).tobytes(), np.uint8)
      m.buffers.append(b)
      t.buffer = len(m.buffers) - 1
    sg.tensors.append(t)
    return len(sg.tensors) - 1

  act_shape = [1, 2, D] if rank == 3 else [2, D]
  prev = tensor("x", act_shape)
  for i, s in enumerate(cfg, start=1):
    op = S.OperatorT()
    if s["kind"] == "UNK":
      out = tensor("u%d" % i, act_shape)
      op.opcodeIndex = opcode(S.BuiltinOperator.ABS)
      op.inputs, op.outputs = [prev], [out]
    else:
      w = tensor("w%d" % i, [D, D], rng.integers(-32, 33, size=(D, D)) / 16.0)
      b = tensor("b%d" % i, [D], rng.integers(-16, 17, size=(D,)) / 8.0) if s["bias"] else -1
      out = tensor("y%d" % i, act_shape)
      op.opcodeIndex = opcode(S.BuiltinOperator.FULLY_CONNECTED)
      op.inputs, op.outputs = [prev, w, b], [out]
      o = S.FullyConnectedOptionsT()
      o.keepNumDims = True
      o.fusedActivationFunction = {"none": S.ActivationFunctionType.NONE, "relu": S.ActivationFunctionType.RELU, "relu6": S.ActivationFunctionType.RELU6}[s["relu"]]
      op.builtinOptionsType = S.BuiltinOptions.FullyConnectedOptions
      op.builtinOptions = o
    sg.operators.append(op)
    prev = out
  sg.inputs, sg.outputs = [0], [prev]
  m.subgraphs = [sg]
  sd = S.SignatureDefT()
  sd.signatureKey = b"serving_default"
  sd.subgraphIndex = 0
  tin, tout = S.TensorMapT(), S.TensorMapT()
  tin.name, tin.tensorIndex = b"x", 0
  tout.name, tout.tensorIndex = b"out", prev
  sd.inputs, sd.outputs = [tin], [tout]
  m.signatureDefs = [sd]
  return bytes(flatbuffer_utils.convert_object_to_bytearray(m))


def graph_record(proj_sub, bufs):
  from ai_edge_litert import schema_py_generated as S
  names = {v: k for k, v in vars(S.BuiltinOperator).items() if isinstance(v, int)}
  return {"nt": len(proj_sub["tensors"]),
          "ops": [{"code": names.get(o["code"], str(o["code"])), "ins": o["ins"], "outs": o["outs"]} for o in proj_sub["ops"]],
          "gins": proj_sub["gins"], "gouts": proj_sub["gouts"],
          "consts": [t for t, x in enumerate(proj_sub["tensors"]) if 0 <= x["buf"] < len(bufs) and bufs[x["buf"]]["len"] > 0],
          "names": [x["name"] for x in proj_sub["tensors"]]}


def run(chk, args):
  """Adds the block-wise part to check C01; returns a coverage dict."""
  from ai_edge_quantizer import qtyping as Q, quantizer
  maxfc = 2 if args.tier == "quick" else 3
  r = tlc.run("C01_subchannel", "Subchannel", dict(MaxFC=str(maxfc), Bugs="{}", Acts='{"none", "relu", "relu6"}', Ranks="{2, 3}"), invariants=INVS, constraints=["Emit"], workers=8, timeout=3600)
  if r.error or r.rc not in (0, 12):
    chk.machinery("TLC failed on Subchannel.tla: %s" % r.out[-600:])
    return {}
  if r.violated:
    chk.violation("design-level: %s violated in Subchannel.tla" % r.violated, {"property": "C01", "clause": "subchannel-design", "tlc": r.out[-2000:]})
  dumps = {}
  for d in r.json_dumps("DUMP"):
    dumps.setdefault(json.dumps([d["cfg"], d["rank"]], sort_keys=True), d)
  quick = args.tier == "quick"
  keys = (common.sample_keep(sorted(k for k in dumps if dumps[k]["pc"] == "done"), 120 if quick else 3000, args.seed) +
          common.sample_keep(sorted(k for k in dumps if dumps[k]["pc"] != "done"), 50 if quick else 1200, args.seed))
  blk = Q.OpQuantizationConfig(weight_tensor_config=Q.TensorQuantizationConfig(num_bits=8, symmetric=True, granularity=Q.QuantGranularity.BLOCKWISE, block_size=4),
                               compute_precision=Q.ComputePrecision.FLOAT, explicit_dequantize=True, skip_checks=True)
  obs, meta = [], []
  outcomes = {}
  ndrift = 0
  for n, k in enumerate(keys):
    d = dumps[k]
    cfg = d["cfg"]
    model = build(cfg, args.seed + n, d["rank"])
    q = quantizer.Quantizer(model)
    for i, s in enumerate(cfg, start=1):
      if s["kind"] == "FC" and s["blk"]:
        q.update_quantization_recipe("y%d;" % i, Q.TFLOperationName.FULLY_CONNECTED, blk)
    rep = {"property": "C01", "clause": "subchannel", "chain": cfg, "rank": d["rank"], "seed": args.seed + n}
    try:
      out = bytes(q.quantize().quantized_model)
    except Exception as e:  # pylint: disable=broad-except
      outcomes["raised %s" % type(e).__name__] = outcomes.get("raised %s" % type(e).__name__, 0) + 1
      why = "fused_activation" if "fusedActivationFunction" in str(e) else "rank" if "3D input" in str(e) else "other"
      if isinstance(e, ValueError) and d["pc"] == why:
        continue                # refused where, and for the reason, the specification predicts
      chk.note("spec-drift block-wise chain %s: quantize() raised %s: %s (the specification predicts %s)" % (k[:80], type(e).__name__, str(e)[:120], d["pc"]))
      ndrift += 1
      continue
    outcomes["returned"] = outcomes.get("returned", 0) + 1
    predicted_refusal = d["pc"] != "done"
    try:
      proj = project.project(out)
    except Exception as e:  # pylint: disable=broad-except
      chk.violation("the returned bytes do not parse as a model: %s" % str(e)[:200], dict(rep, what="parse"))
      continue
    g = graph_record(proj["subs"][0], proj["bufs"])
    obs.append(dict(g, id=len(obs) + 1))
    meta.append(rep)
    # interpreter clause
    if pipecheck.interp_run(model) == "ok":
      res = pipecheck.interp_run(out)
      if res != "ok":
        chk.violation("interpreter: %s on the block-wise rewritten chain" % res[:200], dict(rep, what="interpreter", result=res))
    # prediction (drift only)
    if predicted_refusal:
      ndrift += 1
      chk.note("spec-drift block-wise chain %s: a model is returned, the specification predicts a refusal (%s)" % (k[:80], d["pc"]))
      continue
    want = d["g"]
    wops = [{"code": CODE.get(o["code"], o["code"]), "ins": o["ins"], "outs": o["outs"]} for o in want["ops"]]
    diffs = []
    if g["ops"] != wops:
      diffs.append("operators / wiring")
    if g["names"] != want["names"]:
      diffs.append("tensor names")
    if sorted(g["consts"]) != sorted(want["consts"]):
      diffs.append("constants")
    if g["gins"] != want["gins"] or g["gouts"] != want["gouts"]:
      diffs.append("graph inputs / outputs")
    if any(proj["subs"][0]["tensors"][w]["dt"] != "i8" for w in want["wq"] if w < g["nt"]):
      diffs.append("weight dtype")
    if diffs:
      ndrift += 1
      chk.note("spec-drift block-wise chain %s: %s differ from the predicted terminal state" % (k[:80], ", ".join(diffs)))
  verdicts = {}
  states = r.distinct
  if obs:
    path = os.path.join(tlc.WORK, "C01_subchannel_obs.json")
    json.dump(obs, open(path, "w"))
    ro = tlc.run("C01_subchannel_observed", "ObservedSubchannel", {}, constraints=["Emit"], workers=1, env={"OBS_FILE": path}, timeout=1800)
    states += ro.distinct
    for v in ro.json_dumps("VERDICT"):
      verdicts[v["id"]] = v
    if ro.error or len(verdicts) != len(obs):
      chk.machinery("ObservedSubchannel failed: %d verdicts for %d graphs: %s" % (len(verdicts), len(obs), ro.out[-500:]))
    for o, rep in zip(obs, meta):
      v = verdicts.get(o["id"])
      bad = [c for c in ("inrange", "single", "topo", "names", "outs") if v is not None and not v[c]]
      if bad:
        chk.violation("%s false on the block-wise rewritten chain" % "/".join(bad), dict(rep, what=bad, verdict=v, graph=o))
  elif keys:
    chk.machinery("vacuous: no block-wise chain was quantized")
  return {"subchannel_states": states, "subchannel_chains_enumerated": len(dumps), "subchannel_chains_replayed": len(keys),
          "subchannel_outcomes": outcomes, "subchannel_prediction_drifts": ndrift, "subchannel_graphs_judged": len(verdicts)}
