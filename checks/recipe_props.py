#!/venv/bin/python
"""C11 (last-applicable-rule-wins resolution) and C12 (a saved recipe reloads identically).

TLC explores spec/Recipe.tla: every reachable store is expanded once (VIEW hides the history) and every
(store, letter) transition is emitted with the predicted outcome, export, resolution table and reload status.
spec -> code: each transition is replayed on a real RecipeManager (history prefix, then the letter) and the
implementation's accept/refuse, exported recipe, resolution at every (operator, scope) pair and JSON reload
are compared with the prediction. Longer histories come from TLC -simulate.
"""
import collections
import concurrent.futures as cf
import glob
import json
import os
import sys
import time

sys.path.insert(0, os.path.dirname(os.path.dirname(os.path.abspath(__file__))))
from harness import common  # pylint: disable=g-import-not-at-top

common.setup_env()
from harness import recipe, tlc  # pylint: disable=g-import-not-at-top

FIXES_NOW = []   # repairs of the recipe round trip present in /repo: "wcfg" (F12), "noqcfg" (F14)
if os.path.exists(os.path.join(common.VERIF, "known_findings.json")):
  _kf = json.load(open(os.path.join(common.VERIF, "known_findings.json")))
  FIXES_NOW = _kf.get("recipe_spec_fixes", [])

_W = {}


def _winit():
  common.setup_env()
  A = recipe.alphabet()
  _W["A"] = A
  _W["impl"] = recipe.Impl(A)


def _replay_group(group):
  """group = (prefix history, [transitions sharing that prefix])."""
  impl = _W["impl"]
  prefix, trans = group
  import zlib
  impl.enum_keys = zlib.crc32(json.dumps(prefix).encode()) % 2 == 0
  out = []
  for t in trans:
    # the whole history on a fresh manager, with the resolution table read after EVERY step (as calibrate() / quantize() do
    # between two recipe updates): resolution is a pure function of the store in Recipe.tla, so reading it must change nothing
    rm2 = impl.fresh()
    for letter in prefix:
      impl.step(rm2, letter)
      impl.resolve(rm2)
      rm2.need_calibration()      # another read: need_calibration is a function of the store (Recipe!NeedCal)
    letter = t["hist"][-1]
    got_last = impl.step(rm2, letter)
    exp = impl.export(rm2)
    res = impl.resolve(rm2)
    rt = impl.roundtrip(rm2)
    pred_res = {(q[0], q[1]): r for q, r in t["resolve"]}
    d = []
    if got_last != t["last"]:
      d.append(("accept", "spec %s impl %s" % (t["last"], got_last)))
    if exp != t["export"]:
      d.append(("export", "spec %s impl %s" % (t["export"], exp)))
    if "needcal" in t and bool(rm2.need_calibration()) != bool(t["needcal"]):
      d.append(("need-calibration", "spec %s impl %s" % (t["needcal"], rm2.need_calibration())))
    if {k: list(v) for k, v in res.items()} != {k: list(v) for k, v in pred_res.items()}:
      bad = [(k, pred_res[k], res[k]) for k in res if list(res[k]) != list(pred_res[k])]
      d.append(("resolve", "spec/impl differ at %s" % bad[:3]))
    out.append(dict(hist=t["hist"], diffs=d, rt=rt, pred_load=t["load"], pred_rt=t["rt"]))
  return out


def main():
  prop = sys.argv[1]
  args = common.parse_args(sys.argv[2:])
  chk = common.Check(prop, "model_checking", args)
  A = recipe.alphabet()
  maxlen = 2 if args.tier == "quick" else 3
  consts, tabs = recipe.tla_constants(A, maxlen, FIXES_NOW)
  invs = ["UniqueOpPerRegex", "UniqueRegex", "StarFirst", "NonEmptyLists", "ResolvedIsSupported", "NeedCalSound"]
  props = ["RegexOrderStable", "RefusalIsNoop", "LoadResets"]
  if prop == "C12":
    invs = ["RoundTrip", "RoundTripResolves"]
    props = []
  r = tlc.run("%s_recipe" % prop, "Recipe", consts, invariants=invs, properties=props, constraints=["EmitT"], view="View",
              workers=16, timeout=3600)
  if r.error or r.rc not in (0, 12):
    chk.machinery("TLC failed: %s" % r.out[-800:])
    return chk.finish()
  if r.violated or r.prop_violated:
    chk.note("design-level: %s violated in Recipe.tla" % (r.violated + r.prop_violated))
    chk.violation("design-level property of Recipe.tla violated: %s" % (r.violated + r.prop_violated), {"tlc": r.out[-3000:]})
  trans = recipe.parse_trans(r)
  # longer histories by simulation
  nsim = 300 if args.tier == "quick" else 5000
  consts_sim, _ = recipe.tla_constants(A, 10, FIXES_NOW)
  rs = tlc.run("%s_recipe_sim" % prop, "Recipe", consts_sim, constraints=["EmitT"], workers=1 if args.tier == "quick" else 8,
               simulate="num=%d" % nsim, depth=11, seed=args.seed + 1, timeout=1800)
  trans_sim = recipe.parse_trans(rs)
  if args.tier == "quick":
    trans_sim = common.sample_keep(trans_sim, 3000, args.seed)
  groups = collections.OrderedDict()
  for t in trans + trans_sim:
    if not t["hist"]:
      continue
    groups.setdefault(json.dumps(t["hist"][:-1]), []).append(t)
  items = [(json.loads(k), v) for k, v in groups.items()]
  t0 = time.time()
  results = []
  with cf.ProcessPoolExecutor(max_workers=min(args.procs, max(1, len(items) // 50 + 1)), initializer=_winit) as ex:
    for out in ex.map(_replay_group, items, chunksize=max(1, len(items) // 64)):
      results.extend(out)
  stores = set()
  nrt_bad = collections.Counter()
  for res in results:
    stores.add(json.dumps(res["hist"]))
    rep = {"property": prop, "history": res["hist"], "alphabet": {k: (v if k != "cfgs" else {c: str(o) for c, o in v.items()}) for k, v in A.items()}}
    if prop == "C11":
      for kind, msg in res["diffs"]:
        chk.violation("%s after history %s: %s" % (kind, res["hist"], msg), dict(rep, clause=kind, detail=msg))
    else:
      status, eq_recipe, eq_res = res["rt"]
      # spec-vs-impl agreement on the reload behaviour (drift note), and the property itself on the implementation
      if status != res["pred_load"] or (status == "ok" and eq_recipe != res["pred_rt"]):
        chk.note("spec-drift reload after %s: spec (%s,%s) impl (%s,%s)" % (res["hist"], res["pred_load"], res["pred_rt"], status, eq_recipe))
      if status == "ok" and eq_recipe and eq_res:
        continue
      fid = classify_c12(res, A)
      if fid:
        chk.known(fid)
        nrt_bad[fid] += 1
      else:
        chk.violation("saved recipe does not reload identically after %s: status=%s equal_recipe=%s equal_resolution=%s" %
                      (res["hist"], status, eq_recipe, eq_res), dict(rep, clause="roundtrip", status=status))
  extra = {}
  if prop == "C12":
    extra = shipped_files(chk)
    extra.update(byte_identity(chk, A, results, args))
  chk.cov.update({
      "states": r.distinct, "transitions": r.generated, "traces_validated_against_impl": len(results),
      "transitions_replayed_exhaustive": len(trans), "transitions_replayed_simulated": len(trans_sim),
      "distinct_histories": len(stores), "max_history_exhaustive": maxlen, "max_history_simulated": 10,
      "evaluations": len(results), "distinct_nontrivial": len(stores),
      "rule": "every (reachable store, letter) transition of Recipe.tla within MaxLen plus simulated histories to length 10; "
              "alphabet = 3 regexes x 3 operator selectors x 8 (config, algorithm) pairs + load_quantization_recipe of 4 rule lists "
              "(incl. a list whose middle rule is refused: non-atomic load); queried at 2 operators x 3 scopes",
      "alphabet": {"regexes": A["regexes"], "scopes": A["scopes"], "opsels": A["opsels"], "cfgalgs": A["cfgalgs"]},
      "supported_table": {"%s/%s@%s" % (k[0][0], k[0][1], k[1]): v for k, v in tabs["supported"].items()},
      "replay_wall_s": round(time.time() - t0, 1), "roundtrip_known": dict(nrt_bad),
      "samples": [results[i] for i in (0, len(results) // 2, len(results) - 1)] if results else [],
      "exhaustive": True,
  })
  chk.cov.update(extra)
  chk.assumptions += ["regex semantics are Python's re.search (Matches table computed, not modelled)",
                      "the support table is read from the implementation (its soundness is C13's subject)"]
  return chk.finish()


def classify_c12(res, A):
  """Known findings of the round trip, identified by the rule that fails (not by the symptom)."""
  kf = {f["id"] for f in common.known_findings().get("findings", [])}
  status, eq_recipe, _ = res["rt"]
  # current store = replay of the history in the documented model is not needed: the failing rule kinds are visible
  # in the history's accepted letters
  letters = []
  for l in res["hist"]:
    if l[0] == "load":
      letters += [(r, o, tuple(c)) for r, o, c in A["lists"][l[1] - 1]]
    else:
      letters.append((l[0], l[1], tuple(l[2])))
  if status == "keyerror" and "F12" in kf and any(not_has_w(A, l) and l[2][1] != "noq" for l in letters):
    return "F12"
  if status == "ok" and not eq_recipe and "F14" in kf and any(l[2][1] == "noq" and l[2][0] != "dflt" for l in letters):
    return "F14"
  return None


def not_has_w(A, l):
  c = A["cfgs"][l[2][0]]
  return c is None or c.weight_tensor_config is None


def shipped_files(chk):
  """Every recipe file under recipes/ loads; the default recipes re-export to themselves."""
  _, _, _, quantizer = recipe.lib()
  from harness import synth
  model, _ = synth.build({"subs": [{"ops": [{"kind": "FC", "ins": [0, 1, 2], "outs": [3]}], "trole": ["act", "w", "b", "act"],
                                    "gins": [0], "gouts": [3]}], "mode": [[{"m": "NOQ", "a": "-", "w": "-"}]]})
  n = 0
  kf = {f["id"] for f in common.known_findings().get("findings", [])}
  for path in sorted(glob.glob(os.path.join(common.REPO, "ai_edge_quantizer/recipes/*.json"))):
    n += 1
    name = os.path.basename(path)
    try:
      q = quantizer.Quantizer(model, path)
      rec = q.get_quantization_recipe()
      original = json.load(open(path))
      if name.startswith(("default_", "dynamic_")):
        if json.loads(json.dumps(rec)) != original:
          chk.violation("shipped recipe %s does not re-export to itself" % name, {"file": name, "export": json.loads(json.dumps(rec)), "file_content": original})
    except Exception as e:  # pylint: disable=broad-except
      if name == "sample_advanced_usage_recipe.json" and "F5" in kf:
        chk.known("F5")
      else:
        chk.violation("shipped recipe %s does not load: %s: %s" % (name, type(e).__name__, str(e)[:200]), {"file": name})
  return {"shipped_recipe_files": n}


def byte_identity(chk, A, results, args):
  """quantize() with the recipe and with its JSON-reloaded copy is byte-identical (same model, same statistics)."""
  _, Q, _, quantizer = recipe.lib()
  import numpy as np
  from harness import synth
  g = synth.G()
  sg = g.subgraph()
  rng = np.random.default_rng(7)
  x = g.tensor(sg, "model/in", [1, 2, 2, 4])
  w = g.tensor(sg, "model/a/w", [4, 4], rng.normal(size=(4, 4)).astype(np.float32))
  y = g.tensor(sg, "model/a/fc1", [1, 2, 2, 4])
  c = g.tensor(sg, "model/b/c", [1, 2, 2, 4], rng.normal(size=(1, 2, 2, 4)).astype(np.float32))
  z = g.tensor(sg, "model/b/add1", [1, 2, 2, 4])
  u = g.tensor(sg, "model/a/add2", [1, 2, 2, 4])
  S = synth.S
  g.op(sg, S.BuiltinOperator.FULLY_CONNECTED, [x, w, -1], [y], synth.opt(S.FullyConnectedOptionsT, keepNumDims=True), S.BuiltinOptions.FullyConnectedOptions)
  g.op(sg, S.BuiltinOperator.ADD, [y, c], [z], S.AddOptionsT(), S.BuiltinOptions.AddOptions)
  g.op(sg, S.BuiltinOperator.ADD, [z, x], [u], S.AddOptionsT(), S.BuiltinOptions.AddOptions)
  sg.inputs = [x]
  sg.outputs = [u]
  g.signature("serving_default", 0, [("x", x)], [("o", u)])
  model = g.bytes()
  stats = {n: {"min": np.full((1, 1, 1, 1), -1.3125 - 0.375 * i, np.float32), "max": np.full((1, 1, 1, 1), 0.5625 + 0.21875 * i, np.float32)}
           for i, n in enumerate(["model/in", "model/a/fc1", "model/b/add1", "model/a/add2"])}
  impl = recipe.Impl(A)
  hists = common.sample_keep(sorted({json.dumps(r["hist"]) for r in results}), 150 if args.tier == "quick" else 2500, args.seed)
  n = same = raised = 0
  import copy
  for h in hists:
    q1 = quantizer.Quantizer(model)
    for l in json.loads(h):
      try:
        if l[0] == "load":
          impl.load(q1._recipe_manager, l[1])  # pylint: disable=protected-access
        else:
          q1.update_quantization_recipe(A["regexes"][l[0]], Q.TFLOperationName(l[1]), A["cfgs"][l[2][0]], recipe.ALG[l[2][1]])
      except ValueError:
        pass
    rec = q1.get_quantization_recipe()
    if not rec:
      continue
    try:
      q2 = quantizer.Quantizer(model, json.loads(json.dumps(rec)))
    except Exception:  # pylint: disable=broad-except
      continue       # reload failures are judged above
    n += 1
    try:
      b1 = q1.quantize(copy.deepcopy(stats)).quantized_model
    except Exception as e1:  # pylint: disable=broad-except
      b1 = "raise:" + type(e1).__name__
    try:
      b2 = q2.quantize(copy.deepcopy(stats)).quantized_model
    except Exception as e2:  # pylint: disable=broad-except
      b2 = "raise:" + type(e2).__name__
    if isinstance(b1, str) or isinstance(b2, str):
      raised += 1
      if (b1 if isinstance(b1, str) else "model") != (b2 if isinstance(b2, str) else "model"):
        chk.violation("original recipe and its reloaded copy disagree on raising: %s vs %s" % (str(b1)[:40], str(b2)[:40]), {"history": json.loads(h)})
      continue
    if bytes(b1) == bytes(b2):
      same += 1
    elif q2.get_quantization_recipe() == rec:
      chk.violation("equal recipes quantize the same model to different bytes", {"history": json.loads(h)})
    else:
      # unequal reloaded recipe: already reported/known above (F14); byte difference would be a further violation
      chk.violation("reloaded recipe quantizes to different bytes", {"history": json.loads(h)})
  return {"byte_identity_compared": n, "byte_identical": same, "both_raised": raised}


if __name__ == "__main__":
  sys.exit(main())
