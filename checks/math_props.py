#!/venv/bin/python
"""C17: quantisation arithmetic obeys its algebraic laws.

design   : TLC checks the laws on the exact-rational reference (spec/QuantMath.tla) for every grid vector
spec->code: each vector's expected value (zero point, scale as a rational, code) is compared with the library
code->spec: integer results observed from the library (all codes x parameters as the library produces them,
            ascending inputs, per-channel tensors) are judged by TLC (spec/ObservedMath.tla)
"""
import json
import os
import sys
from fractions import Fraction

sys.path.insert(0, os.path.dirname(os.path.dirname(os.path.abspath(__file__))))
from harness import common  # pylint: disable=g-import-not-at-top

common.setup_env()
from harness import tlc  # pylint: disable=g-import-not-at-top
import numpy as np  # pylint: disable=g-import-not-at-top


def lib():
  from ai_edge_quantizer import qtyping as Q
  from ai_edge_quantizer.algorithms.uniform_quantize import uniform_quantize_tensor as U
  return Q, U


def main():
  args = common.parse_args(sys.argv[2:])
  chk = common.Check("C17", "model_checking", args)
  Q, U = lib()
  grid, xn = (16, 40) if args.tier == "quick" else (48, 160)
  r = tlc.run("C17_quantmath", "QuantMath", dict(GridN=str(grid), XN=str(xn)), invariants=["Laws"], constraints=["Emit"], workers=16, timeout=3600)
  if r.error or r.rc not in (0, 12):
    chk.machinery("TLC failed on QuantMath: %s" % r.out[-800:])
    return chk.finish()
  if r.violated:
    chk.violation("the reference arithmetic itself violates a law (specification error or genuine): %s" % r.violated, {"tlc": r.out[-2000:]})
  vecs = {}
  for line in r.printed("VEC"):
    try:
      v = json.loads(json.loads(line[line.index(",") + 1:line.rindex(">>")].strip()))
      vecs[json.dumps(v, sort_keys=True)] = v
    except Exception:  # pylint: disable=broad-except
      pass
  vecs = list(vecs.values())
  F = lambda p: Fraction(p[0], p[1])
  obs = []
  ties = 0
  maxrel = 0.0
  params_seen = []
  params16 = []
  for v in vecs:
    rep = {"property": "C17", "vector": v}
    if v["fam"] == "zs":
      mn, mx = float(F(v["mn"])), float(F(v["mx"]))
      zp, sc = U.tensor_zp_scale_from_min_max(np.array([[mn]], np.float32), np.array([[mx]], np.float32), v["bits"], v["sym"])
      zpi, scf = int(zp.flatten()[0]), float(sc.flatten()[0])
      exp_sc = F(v["scale"])
      rel = abs(Fraction(scf) - exp_sc) / exp_sc
      maxrel = max(maxrel, float(rel))
      if not np.isfinite(scf) or scf <= 0 or rel > Fraction(3, 10**7):
        chk.violation("scale %r differs from the reference %s (rel %.2e)" % (scf, exp_sc, float(rel)), dict(rep, got_scale=scf))
      okzp = zpi == v["zp"] or (v["tie"] and abs(zpi - v["zp"]) == 1)
      ties += bool(v["tie"])
      if not okzp:
        # float32 evaluation of qmin - min/scale may land on the other side of a near-tie: accept the neighbour only
        # when the exact value is within 2^-10 of a tie, otherwise it is a violation
        mnq = F(v["mn"]) if F(v["mn"]) < 0 else Fraction(0)
        zpf = Fraction(-(2 ** (v["bits"] - 1))) - mnq / exp_sc
        near = abs((zpf - int(zpf // 1)) - Fraction(1, 2)) < Fraction(1, 1024)
        if not (near and abs(zpi - v["zp"]) == 1):
          chk.violation("zero point %d differs from the reference %d" % (zpi, v["zp"]), dict(rep, got_zp=zpi))
      lo, hi = -(2 ** (v["bits"] - 1)), 2 ** (v["bits"] - 1) - 1
      obs.append({"kind": "zs", "zp": zpi, "lo": lo, "hi": hi, "sym": v["sym"], "zpok": bool(np.issubdtype(zp.dtype, np.signedinteger))})
      if v["bits"] in (4, 8) and len(params_seen) < (400 if args.tier == "quick" else 4000):
        params_seen.append((v, zp, sc))
      if v["bits"] == 16 and len(params16) < (120 if args.tier == "quick" else 1500):
        params16.append((v, zp, sc))
    else:
      x = np.array([float(F(v["x"]))], np.float32)
      p = Q.UniformQuantParams(num_bits=v["bits"], quantized_dimension=None, scale=np.array([float(F(v["scale"]))], np.float32),
                               zero_point=np.array([v["zp"]], np.int32), symmetric=v["sym"])
      q = int(U.uniform_quantize(x, p)[0])
      if q != v["q"] and not (v["tie"] and abs(q - v["q"]) == 1):
        chk.violation("quantize(%s) = %d, reference %d" % (v["x"], q, v["q"]), dict(rep, got=q))
      ties += bool(v["tie"])
  # ---- observed integer laws: all codes, parameters exactly as the library produces them (dtype included)
  for v, zp, sc in params_seen:
    bits, sym = v["bits"], v["sym"]
    lo, hi = -(2 ** (bits - 1)) + (1 if sym else 0), 2 ** (bits - 1) - 1
    codes = np.arange(lo, hi + 1).astype(np.int8).reshape(1, -1)
    p = Q.UniformQuantParams(num_bits=bits, quantized_dimension=None, scale=sc, zero_point=zp, symmetric=sym)
    deq = U.uniform_dequantize(codes, p)
    back = U.uniform_quantize(np.asarray(deq, np.float32), p)
    obs.append({"kind": "rt", "codes": codes.flatten().tolist(), "back": [int(b) for b in back.flatten()], "lo": lo, "hi": hi})
    # the same with parameters as they are STORED in a .tflite / returned by the interpreter: flattened 1-D arrays with a
    # quantized dimension, applied to tensors of rank 2 and 3 (the rank fix-up path)
    for shape in ((1, -1), (1, 1, -1)):
      p1 = Q.UniformQuantParams(num_bits=bits, quantized_dimension=0, scale=np.asarray(sc).flatten(), zero_point=np.asarray(zp).flatten(), symmetric=sym)
      c2 = codes.reshape(shape)
      back1 = U.uniform_quantize(np.asarray(U.uniform_dequantize(c2, p1), np.float32), p1)
      obs.append({"kind": "rt", "codes": c2.flatten().tolist(), "back": [int(b) for b in back1.flatten()], "lo": lo, "hi": hi})
    # ascending inputs from far below to far above the range ("any array": outliers up to the largest finite float32)
    far = [1e3, 1e6, 2.5e7, 1e12, 1e30, 3e38]
    xs = np.concatenate([-np.array(far[::-1]), np.linspace(float(F(v["mn"])) - 1.0, float(F(v["mx"])) + 1.0, 97), np.array(far)]).astype(np.float32).reshape(1, -1)
    with np.errstate(over="ignore", invalid="ignore"):
      qs = U.uniform_quantize(xs, p)
    # every outlier is beyond the representable range [deq(lo), deq(hi)] (ranges of these vectors are below 10 in magnitude)
    obs.append({"kind": "mono", "qs": [int(b) for b in qs.flatten()], "lo": lo, "hi": hi, "below": len(far), "above": len(far)})
  # ---- 16 bit: the codes at both ends, around the zero point and a stride through the range (not exhaustive), parameters and dtypes
  # exactly as the library produces them (codes as int16, as uniform_quantize returns them)
  # 16-bit parameters of tiny and degenerate ranges (scale 1e-4 / 65535: beyond the reach of the 32-bit rational reference; the
  # round-trip law on the integer codes is judged all the same)
  for mn_, mx_ in ((0.0, 0.0), (0.0, 2e-4), (-1e-4, 1e-4), (-3e-5, 0.0), (-2e-4, 5e-5)):
    for sym_ in (True, False):
      zp_, sc_ = U.tensor_zp_scale_from_min_max(np.array([[mn_]], np.float32), np.array([[mx_]], np.float32), 16, sym_)
      params16.append(({"sym": sym_, "tiny": True}, zp_, sc_))
  for v, zp, sc in params16:
    sym = v["sym"]
    lo, hi = -(2 ** 15) + (1 if sym else 0), 2 ** 15 - 1
    z = int(np.asarray(zp).flatten()[0])
    pts = sorted({c for c in list(range(lo, lo + 4)) + list(range(hi - 3, hi + 1)) + list(range(lo, hi + 1, 509)) + [z - 1, z, z + 1, 0, -1, 1] if lo <= c <= hi})
    codes = np.array(pts, np.int16).reshape(1, -1)
    p = Q.UniformQuantParams(num_bits=16, quantized_dimension=None, scale=sc, zero_point=zp, symmetric=sym)
    deq = U.uniform_dequantize(codes, p)
    back = U.uniform_quantize(np.asarray(deq, np.float32), p)
    obs.append({"kind": "rt", "codes": [int(c) for c in codes.flatten()], "back": [int(b) for b in back.flatten()], "lo": lo, "hi": hi})
    # dequantize is affine and increasing in the code: the dequantized values of ascending codes ascend
    dv = np.asarray(deq, np.float64).flatten()
    obs.append({"kind": "mono", "qs": [int(x) for x in np.argsort(dv, kind="stable")], "lo": 0, "hi": len(pts) - 1, "below": 0, "above": 0})
    # ascending inputs from far below to far above the range, as for 4 and 8 bits: the codes stay inside the (narrow, when symmetric)
    # 16-bit range and every outlier saturates at its end
    far = [1e3, 1e6, 2.5e7, 1e12, 1e30, 3e38]
    mn16, mx16 = (float(F(v["mn"])), float(F(v["mx"]))) if "mn" in v else (-3e-4, 3e-4)
    xs = np.concatenate([-np.array(far[::-1]), np.linspace(mn16 - 1.0, mx16 + 1.0, 97), np.array(far)]).astype(np.float32).reshape(1, -1)
    with np.errstate(over="ignore", invalid="ignore"):
      qs16 = U.uniform_quantize(xs, p)
    obs.append({"kind": "mono", "qs": [int(b) for b in qs16.flatten()], "lo": lo, "hi": hi, "below": len(far), "above": len(far)})
  # ---- per-channel parameters act only along their own channel (rank 1..4, any quantised dimension)
  rng = np.random.default_rng(args.seed)
  nchan = 60 if args.tier == "quick" else 1500
  for i in range(nchan):
    rank = int(rng.integers(1, 5))
    shape = tuple(int(rng.integers(1, 5)) for _ in range(rank))
    qd = int(rng.integers(0, rank))
    data = rng.normal(size=shape).astype(np.float32) * 3
    bits = int(rng.choice([4, 8]))
    sym = bool(rng.integers(0, 2))
    red = tuple(d for d in range(rank) if d != qd)
    mn, mx = np.min(data, axis=red, keepdims=True), np.max(data, axis=red, keepdims=True)
    zp, sc = U.tensor_zp_scale_from_min_max(mn, mx, bits, sym)
    p1 = Q.UniformQuantParams(num_bits=bits, quantized_dimension=qd, scale=sc, zero_point=zp, symmetric=sym)
    c = int(rng.integers(0, shape[qd]))
    sc2 = np.array(sc, copy=True)
    idx = [0] * rank
    idx[qd] = c
    sc2[tuple(idx)] *= 1.7
    p2 = Q.UniformQuantParams(num_bits=bits, quantized_dimension=qd, scale=sc2, zero_point=zp, symmetric=sym)
    q1, q2 = U.uniform_quantize(data, p1), U.uniform_quantize(data, p2)
    ch = np.indices(shape)[qd]
    obs.append({"kind": "chan", "q1": [int(b) for b in q1.flatten()], "q2": [int(b) for b in q2.flatten()],
                "ch": [int(b) for b in ch.flatten()], "c": c})
  path = os.path.join(tlc.WORK, "C17_obs.json")
  json.dump(obs, open(path, "w"))
  ro = tlc.run("C17_observed", "ObservedMath", {}, constraints=["Emit"], workers=1, env={"OBS_FILE": path}, timeout=3600)
  verdict = {}
  for line in ro.printed("VERDICT"):
    parts = line.strip("<> \n").split(",")
    verdict[int(parts[1])] = parts[2].strip() == "TRUE"
  if ro.error or len(verdict) != len(obs):
    chk.machinery("ObservedMath failed: %d verdicts for %d observations %s" % (len(verdict), len(obs), ro.out[-600:]))
  for i, o in enumerate(obs):
    if verdict.get(i + 1) is False:
      chk.violation("law '%s' false on observed library results" % o["kind"], {"property": "C17", "observation": o})
  chk.cov.update({
      "states": r.distinct + ro.distinct, "transitions": r.generated + ro.generated, "traces_validated_against_impl": len(obs),
      "reference_vectors": len(vecs), "exact_ties_detected": ties, "max_rel_scale_error": maxrel,
      "observed_roundtrip_all_codes": sum(1 for o in obs if o["kind"] == "rt"), "observed_roundtrip_16bit_parameter_sets": len(params16), "observed_per_channel": nchan,
      "evaluations": len(vecs) + len(obs), "distinct_nontrivial": len(vecs),
      "rule": "vectors = grid of ranges (min=-a/8,max=b/8, one-sided, tiny) x bits {4,8,16} x symmetry; elements x=k/16 x dyadic scales x "
              "zero points; all integer codes for 4/8 bit under parameters exactly as the library returns them; random per-channel tensors",
      "samples": vecs[:2] + [o for o in obs if o["kind"] == "rt"][:1], "exhaustive": True,
  })
  chk.assumptions += ["numpy float32/float64 arithmetic in the comparison of a float with a TLC-produced rational (tolerance 3e-7 relative on scales; "
                      "either neighbour accepted on an exact tie detected by TLC)"]
  return chk.finish()


if __name__ == "__main__":
  sys.exit(main())
