#!/venv/bin/python
"""C18: validate() reports the true per-tensor error, once per tensor.

design    : TLC checks PartitionOK and ReturnsForQuantizedPair on spec/Validate.tla (partition by successive pops, with
            the KeyError sites) over all name-set configurations of 4 names
code->spec: Quantizer.validate() / compare_model() are run on generated models against their quantized versions and
            against themselves, both metrics, every signature; the observed groups and the name sets read from the two
            models are judged by TLC (spec/ObservedValidate.tla); every reported value is compared with the metric the
            harness computes from its own two interpreter runs (observation `valok`).
"""
import json
import os
import sys
import time

sys.path.insert(0, os.path.dirname(os.path.dirname(os.path.abspath(__file__))))
from harness import common  # pylint: disable=g-import-not-at-top

common.setup_env()
from harness import pipeline, project, rgen, synth, tlc  # pylint: disable=g-import-not-at-top
import numpy as np  # pylint: disable=g-import-not-at-top

KINDS = ["FC", "EW2", "EW1", "SAMEIN0", "SAMEIN1", "CONCAT", "FIXT", "FIXSL", "UNSUP", "BMM", "SPLIT", "TCONV"]


def run_all_tensors(model, feeds, key, refk=False):
  from ai_edge_litert import interpreter as tfl
  it = tfl.Interpreter(model_content=bytes(model), experimental_preserve_all_tensors=True,
                       experimental_op_resolver_type=tfl.OpResolverType.BUILTIN_REF if refk else tfl.OpResolverType.BUILTIN_WITHOUT_DEFAULT_DELEGATES)
  it.allocate_tensors()
  run = it.get_signature_runner(key)
  f2 = {}
  for name, d in run.get_input_details().items():
    v = feeds[name]
    qp = d["quantization_parameters"]
    if len(qp["scales"]):
      info = np.iinfo(d["dtype"])
      # same arithmetic as the TFLite reference quantisation the library applies to model inputs (multiply by the float32
      # inverse scale): a different rounding of an exact tie would feed the two harnesses inputs one code apart
      inv = 1.0 / np.asarray(qp["scales"])
      v = np.clip(np.rint(np.multiply(v, inv) + np.asarray(qp["zero_points"])), info.min, info.max).astype(d["dtype"])
    f2[name] = v
  run(**f2)
  sub = run._subgraph_index  # pylint: disable=protected-access
  out = {}
  for d in it.get_tensor_details(sub):
    if not d["name"] or d["dtype"] == np.object_:
      continue
    try:
      v = it.get_tensor(d["index"], sub)
    except ValueError:
      continue
    qp = d["quantization_parameters"]
    if len(qp["scales"]):
      sc, zp = np.asarray(qp["scales"], np.float64), np.asarray(qp["zero_points"], np.int64)
      if len(sc) > 1:
        shape = [1] * v.ndim
        shape[qp["quantized_dimension"]] = -1
        sc, zp = sc.reshape(shape), zp.reshape(shape)
      v = (v.astype(np.int64) - zp) * sc
    out[d["name"]] = np.asarray(v)
  return out


def metric(name, a, b):
  a = np.nan_to_num(np.array(a, np.float32).flatten(), nan=1e-9, neginf=-1e9, posinf=1e9)
  b = np.nan_to_num(np.array(b, np.float32).flatten(), nan=1e-9, neginf=-1e9, posinf=1e9)
  if a.size == 0:
    return 0.0
  if name == "mse":
    return float(np.mean(np.square(a - b)))
  return float(np.median(np.abs(a - b) / (np.abs(b) + 1e-6)))


def main():
  args = common.parse_args(sys.argv[2:])
  chk = common.Check("C18", "model_checking", args)
  from absl import logging as alog
  alog.set_verbosity(alog.ERROR)
  from ai_edge_quantizer import quantizer, model_validator
  from ai_edge_quantizer.utils import validation_utils
  r = tlc.run("C18_validate", "Validate", dict(Names='{"a", "b", "c", "d"}', Fixes='{"inout"}'), invariants=["PartitionOK", "ReturnsForQuantizedPair", "FlatOK"], workers=16, timeout=1800)
  if r.error or r.rc not in (0, 12):
    chk.machinery("TLC failed: %s" % r.out[-800:])
  if r.violated:
    chk.violation("design-level: %s violated in Validate.tla" % r.violated, {"tlc": r.out[-2500:]})
  obs, meta = [], []
  ncase = 160 if args.tier == "quick" else 1500
  t0 = time.time()
  rng = np.random.default_rng(args.seed)
  tried = 0
  skipped_f15 = 0
  nrefk = 0
  # stateful models (an RNN cell with its hidden state in a variable tensor, between dynamically quantised FULLY_CONNECTED ops)
  # validated on several inputs: "averaged over the test inputs" means every input is run from the initial state
  nstateful = 12 if args.tier == "quick" else 100
  stateful = []
  for k in range(nstateful):
    m, shapes = synth.stateful_model(args.seed * 31 + k, second_fc=bool(k % 2))
    stateful.append((m, shapes, False))
  # models whose main subgraph holds BOOL tensors (a GREATER mask, optionally a BOOL constant): every tensor name is reported, bool or not
  nbool = 8 if args.tier == "quick" else 60
  for k in range(nbool):
    m, shapes = synth.bool_mask_model(args.seed * 17 + k, with_const_mask=bool(k % 2))
    stateful.append((m, shapes, True))
  # 16-bit static quantisation of a FULLY_CONNECTED / TRANSPOSE_CONV with a tiny output channel and an ordinary bias: the int64 bias
  # code of that channel is beyond the int32 range, and the validator has to dequantize it like every other tensor
  from harness import numeric
  SRQ16, NOQM = {"m": "SRQ", "a": "a16", "w": "w8c"}, {"m": "NOQ", "a": "-", "w": "-"}
  big64 = []
  for k in range(6 if args.tier == "quick" else 40):
    kind = ("FC", "TCONV")[k % 2]
    sub = ({"ops": [{"kind": "FC", "ins": [0, 1, 2], "outs": [3]}], "trole": ["act", "w", "b", "act"], "gins": [0], "gouts": [3]} if kind == "FC" else
           {"ops": [{"kind": "TCONV", "ins": [1, 2, 0, 3], "outs": [4]}], "trole": ["act", "aux", "w", "b", "act"], "gins": [0], "gouts": [4]})
    big64.append({"subs": [sub], "mode": [[SRQ16]], "inmode": (NOQM, SRQ16)[k // 2 % 2], "outmode": NOQM, "big64": True})
  while (len(obs) < ncase and tried < ncase * 6) or stateful or big64:
    tried += 1
    if big64 and (tried % 10 == 5 or len(obs) >= ncase or tried >= ncase * 6) and not (stateful and tried % 12 == 0):
      scn = big64.pop()
      try:
        model, info = synth.build(scn, args.seed + tried, const_fn=numeric.tinyw_const(np.random.default_rng(args.seed + tried)))
        impl = pipeline.run_impl(scn, seed=args.seed + tried, model=model, info=info, stats=numeric.small_stats(scn))
      except synth.Unrealisable:
        continue
      if impl["outcome"] != "done":
        chk.note("16-bit tiny-channel scenario not quantized: %s" % impl["why"])
        continue
      qmodel = impl["out_bytes"]
      nsamples = 2
    elif len(obs) >= ncase or tried >= ncase * 6 or (stateful and tried % 12 == 0):
      model, shapes, is_bool = stateful.pop()
      from ai_edge_quantizer import recipe as _recipe
      scn, info = ({"stateful": True, "bool_mask": True}, {"codes": [["FULLY_CONNECTED", "GREATER", "CAST", "MUL"]]}) if is_bool else ({"stateful": True}, {"codes": [["FULLY_CONNECTED", "RNN"]]})
      qz = quantizer.Quantizer(model, _recipe.dynamic_wi8_afp32())
      qmodel = bytes(qz.quantize().quantized_model)
      impl = {"cal": None}
      nsamples = 3
    else:
      scn = rgen.gen(args.seed * 15485863 + tried, 2, 5, kinds=KINDS, nsub=1 if tried % 4 else 2)
      try:
        impl = pipeline.run_impl(scn, seed=args.seed + tried)
      except synth.Unrealisable:
        continue
      if impl["outcome"] != "done":
        continue
      model, qmodel, info = impl["in_bytes"], impl["out_bytes"], impl["info"]
      nsamples = 2
      # known finding F15 (C13 / C06): dynamic-range DEPTHWISE_CONV_2D with tensor-wise weights is accepted although the hybrid kernel
      # reads per-channel scales - its output is garbage that differs from run to run, so two interpreter runs of such a model
      # cannot be compared value by value; those models are not used here
      if pipeline.has_f15(scn, info["codes"]):
        skipped_f15 += 1
        continue
    inp, outp = project.project(model), project.project(qmodel)
    # every third case is validated on the reference kernels (validate(..., use_reference_kernel=True))
    refk = tried % 3 == 0
    nrefk += refk
    # three pairs: float vs quantized, float vs itself, and the QUANTIZED model vs itself (a reference that holds quantized tensors)
    for pair_kind, ref_model, inp, tgt_model, tgt_proj in (("quantized", model, inp, qmodel, outp), ("self", model, inp, model, inp), ("quantized-self", qmodel, outp, qmodel, outp)):
      mname = "mse" if (tried + (pair_kind != "quantized")) % 2 else "median_diff_ratio"
      test_data = {}
      for sg in inp["sigs"]:
        test_data[sg["key"]] = [{n: np.abs(rng.normal(size=inp["subs"][sg["sub"]]["tensors"][t]["shape"])).astype(np.float32) + 0.1 for n, t in sg["ins"]}
                                for _ in range(nsamples)]
      try:
        if pair_kind == "quantized" and scn.get("stateful"):
          res = qz.validate(test_data, error_metrics=mname, use_reference_kernel=refk)
        elif pair_kind == "quantized":
          q = quantizer.Quantizer(model)
          pipeline.apply_recipe(q, scn, info)
          q.quantize(impl.get("cal"))
          res = q.validate(test_data, error_metrics=mname, use_reference_kernel=refk)
        else:
          res = model_validator.compare_model(ref_model, tgt_model, test_data, mname, validation_utils.get_validation_func(mname), use_reference_kernel=refk)
      except Exception as e:  # pylint: disable=broad-except
        chk.violation("validate()/compare_model raised on %s pair: %s: %s" % (pair_kind, type(e).__name__, str(e)[:200]),
                      {"property": "C18", "scenario": scn, "codes": info["codes"], "pair": pair_kind, "metric": mname, "clause": "raises"})
        continue
      # the result is read the ways a user reads it - per signature, flat, saved to a folder (twice) - and read per signature again
      def groups_of(key):
        sr = res.get_signature_comparison_result(key)
        return {"gin": dict(sr.input_tensors), "gout": dict(sr.output_tensors), "gconst": dict(sr.constant_tensors), "ginter": dict(sr.intermediate_tensors)}
      first_read = {sg["key"]: groups_of(sg["key"]) for sg in inp["sigs"]}
      flat = res.get_all_tensor_results()
      import shutil, tempfile
      folder = tempfile.mkdtemp(prefix="c18_save_")
      savedok = True
      try:
        for _ in range(2):
          res.save(folder, "m")
          saved = json.load(open(os.path.join(folder, "m_comparison_result.json")))
          for sg in inp["sigs"]:
            fr = first_read[sg["key"]]
            sv = saved.get(sg["key"], {})
            for gname, fld in (("gin", "input_tensors"), ("gout", "output_tensors"), ("gconst", "constant_tensors"), ("ginter", "intermediate_tensors")):
              if sorted(sv.get(fld, {})) != sorted(fr[gname]):
                savedok = False
      except Exception as e:  # pylint: disable=broad-except
        savedok = False
      finally:
        shutil.rmtree(folder, ignore_errors=True)
      for sg in inp["sigs"]:
        si = sg["sub"]
        sres = res.get_signature_comparison_result(sg["key"])
        groups = {"gin": sres.input_tensors, "gout": sres.output_tensors, "gconst": sres.constant_tensors, "ginter": sres.intermediate_tensors}
        stable = {k: dict(v) for k, v in groups.items()} == first_read[sg["key"]]
        ref_names = [t["name"] for t in inp["subs"][si]["tensors"]]
        tgt_names = [t["name"] for t in tgt_proj["subs"][si]["tensors"]]
        consts = [t["name"] for t in inp["subs"][si]["tensors"] if inp["bufs"][t["buf"]]["len"] > 0]
        # own two interpreter runs
        acc = {}
        for feeds in test_data[sg["key"]]:
          a = run_all_tensors(ref_model, feeds, sg["key"], refk)
          b = run_all_tensors(tgt_model, feeds, sg["key"], refk)
          for n in a:
            if n in b:
              acc.setdefault(n, []).append(metric(mname, b[n], a[n]))
        valok, iszero, names = [], [], []
        common_names = set(ref_names) & set(tgt_names)
        for g in groups.values():
          for n, v in g.items():
            if n not in common_names:
              continue        # interpreter temporaries (kernel scratch buffers, uninitialised memory): not tensors of the model
            names.append(n)
            want = float(np.mean(acc[n])) if n in acc else None
            ok = want is not None and abs(float(v) - want) <= 1e-5 * max(1.0, abs(want)) + 1e-9 and float(v) >= 0.0
            valok.append(bool(ok))
            iszero.append(float(v) == 0.0)
        obs.append({"id": len(obs) + 1, "gin": sorted(groups["gin"]), "gout": sorted(groups["gout"]), "gconst": sorted(groups["gconst"]),
                    "ginter": sorted(groups["ginter"]), "ref": ref_names, "tgt": tgt_names,
                    "ins": [ref_names[t] for _, t in sg["ins"]], "outs": [ref_names[t] for _, t in sg["outs"]], "consts": consts,
                    "valok": valok, "iszero": iszero, "self": pair_kind != "quantized",
                    "stable": bool(stable), "savedok": bool(savedok), "flat": sorted(flat)})
        meta.append(dict(scenario=scn, codes=info["codes"], pair=pair_kind, metric=mname, reference_kernels=bool(refk), signature=sg["key"], names=names))
  # metric laws on integer vectors (non-negative, zero on equal arguments, MSE symmetric)
  nlaw = 0
  for k in range(200 if args.tier == "quick" else 5000):
    a = rng.integers(-50, 50, size=int(rng.integers(1, 9))).astype(np.float32)
    b = rng.integers(-50, 50, size=a.size).astype(np.float32)
    for mname in ("mse", "median_diff_ratio"):
      f = validation_utils.get_validation_func(mname)
      nlaw += 1
      if f(a, b) < 0 or f(a, a) != 0 or (mname == "mse" and f(a, b) != f(b, a)) or abs(f(a, b) - metric(mname, a, b)) > 1e-5 * max(1, metric(mname, a, b)):
        chk.violation("metric law violated for %s on %s, %s" % (mname, a.tolist(), b.tolist()), {"property": "C18", "clause": "metric-law", "a": a.tolist(), "b": b.tolist(), "metric": mname})
  path = os.path.join(tlc.WORK, "C18_obs.json")
  json.dump(obs, open(path, "w"))
  ro = tlc.run("C18_observed", "ObservedValidate", {}, constraints=["Emit"], workers=1, env={"OBS_FILE": path}, timeout=3600)
  verdicts = {}
  for line in ro.printed("VERDICT"):
    try:
      v = json.loads(json.loads(line[line.index(",") + 1:line.rindex(">>")].strip()))
      verdicts[v["id"]] = v
    except Exception:  # pylint: disable=broad-except
      pass
  if ro.error or len(verdicts) != len(obs):
    chk.machinery("ObservedValidate failed: %d verdicts for %d observations: %s" % (len(verdicts), len(obs), ro.out[-600:]))
  for o, m in zip(obs, meta):
    v = verdicts.get(o["id"])
    if v is None:
      continue
    bad = [k for k in ("disjoint", "complete", "filed", "reads", "values", "selfzero") if not v[k]]
    if bad:
      detail = [n for n, ok in zip(m["names"], o["valok"]) if not ok][:5]
      chk.violation("%s false for the comparison of a model with its %s version (%s, signature %s) %s" % ("/".join(bad), m["pair"], m["metric"], m["signature"], detail),
                    dict(m, property="C18", clause=bad, verdict=v))
  chk.cov.update({
      "states": r.distinct + ro.distinct, "transitions": r.generated + ro.generated, "traces_validated_against_impl": len(obs),
      "comparison_values_checked": sum(len(o["valok"]) for o in obs), "metric_law_vectors": nlaw,
      "evaluations": len(obs), "distinct_nontrivial": sum(1 for m in meta if m["pair"] != "self"),
      "skipped_nondeterministic_kernel_F15": skipped_f15, "cases_on_reference_kernels": int(nrefk), "stateful_models": nstateful, "models_with_bool_tensors": nbool, "int64_bias_models": sum(1 for m in meta if m["scenario"].get("big64")) // 2,
      "rule": "random 2-5 operator scenarios (1-2 signatures) quantized under random per-op modes, plus models with BOOL tensors (GREATER mask), plus stateful models (RNN cell with a variable "
              "state tensor between dynamically quantised FULLY_CONNECTED ops, 3 test inputs); each compared with its quantized version, "
              "with itself, and the quantized version with itself (every third case on the reference kernels), alternating mse / median_diff_ratio, 2 test inputs; non-trivial = quantized pair",
      "samples": [dict(pair=m["pair"], metric=m["metric"], groups={k: obs[i][k] for k in ("gin", "gout", "gconst", "ginter")}) for i, m in list(enumerate(meta))[:2]],
      "impl_wall_s": round(time.time() - t0, 1), "exhaustive": False,
  })
  chk.assumptions += ["values are compared with the metric computed from the harness's own two LiteRT interpreter runs (tolerance 1e-5 relative)"]
  return chk.finish()


if __name__ == "__main__":
  sys.exit(main())
