#!/venv/bin/python
"""C10: calibration and quantization select the same operators; statistics are never missing.

design    : the scope string each component computes for every operator (read from the two components on real
            models with converter-style tensor names) enters spec/Recipe.tla as ScopePairs; TLC checks
            ScopesMatchAlike and SelectionAgrees (resolution identical under both scopes) over all stores reachable
            with the pattern alphabet (about 40 regexes built from the names: anchored, unanchored, with separators).
spec->code: for every (model, regex, operator selector, config) the real calibrate() and quantize() are run:
            calibrate -> quantize never raises for missing statistics, the operators whose runtime tensors were
            calibrated are exactly the operators quantize() quantised (as predicted by the documented resolution on
            the quantization scope), for every signature of a two-signature model.
"""
import json
import os
import re
import sys
import time

sys.path.insert(0, os.path.dirname(os.path.dirname(os.path.abspath(__file__))))
from harness import common  # pylint: disable=g-import-not-at-top

common.setup_env()
from harness import project, recipe, synth, tlc  # pylint: disable=g-import-not-at-top
import numpy as np  # pylint: disable=g-import-not-at-top

NOQ = {"m": "NOQ", "a": "-", "w": "-"}
NAMES = {
    0: "serving_default_x:0", 1: "model/dense/MatMul/ReadVariableOp", 2: "model/dense/BiasAdd/ReadVariableOp",
    3: "model/dense/MatMul;model/dense/BiasAdd", 4: "model/add/y", 5: "model/add/add", 6: "StatefulPartitionedCall:0",
}
SUB_A = {"ops": [{"kind": "FC", "ins": [0, 1, 2], "outs": [3]}, {"kind": "EW2", "ins": [3, 4], "outs": [5]},
                 {"kind": "FIXT", "ins": [5], "outs": [6]}],
         "trole": ["act", "w", "b", "act", "c", "act", "act"], "gins": [0], "gouts": [6]}
NAMES_B = {0: "sig2_x:0", 1: "enc/mul/y", 2: "enc/mul", 3: "enc/out:0"}
SUB_B = {"ops": [{"kind": "EW2", "ins": [0, 1], "outs": [2]}, {"kind": "EW1", "ins": [2], "outs": [3]}],
         "trole": ["act", "c", "act", "act"], "gins": [0], "gouts": [3]}


# two graph inputs (the virtual INPUT operator has two "outputs") and a SPLIT (two real outputs): a rule may name any ONE of them
NAMES_C = {0: "serving_default_a:0", 1: "serving_default_b:0", 2: "model/split/split_dim", 3: "model/split", 4: "model/split:1",
           5: "model/add_1/add", 6: "PartitionedCall:0"}
SUB_C = {"ops": [{"kind": "SPLIT", "ins": [2, 0], "outs": [3, 4]}, {"kind": "EW2", "ins": [3, 1], "outs": [5]}, {"kind": "FIXT", "ins": [4], "outs": [6]}],
         "trole": ["act", "act", "aux", "act", "act", "act", "act"], "tsh": [[1, 2], [1, 1], [0, 0], [1, 1], [1, 1], [1, 1], [1, 1]], "gins": [0, 1], "gouts": [5, 6]}
MODEL_NAMES = {"one_signature": [NAMES], "two_signatures": [NAMES, NAMES_B], "two_signatures_table_reversed": [NAMES, NAMES_B], "two_inputs_split": [NAMES_C]}


def models():
  one = {"subs": [SUB_A], "mode": [[NOQ] * 3], "inmode": NOQ, "outmode": NOQ, "codes": [["FULLY_CONNECTED", "ADD", "TANH"]]}
  two = {"subs": [SUB_A, SUB_B], "mode": [[NOQ] * 3, [NOQ] * 2], "inmode": NOQ, "outmode": NOQ,
         "codes": [["FULLY_CONNECTED", "ADD", "TANH"], ["MUL", "GELU"]]}
  nf = lambda si, t: (NAMES if si == 0 else NAMES_B)[t]
  two_rev = dict(two, sigtabrev=True)      # the same model with its signature table in the other order
  multi = {"subs": [SUB_C], "mode": [[NOQ] * 3], "inmode": NOQ, "outmode": NOQ, "codes": [["SPLIT", "ADD", "TANH"]]}
  extra = {}
  try:
    extra["two_inputs_split"] = (multi, synth.build(multi, 0, name_fn=lambda si, t: NAMES_C[t]))
  except synth.Unrealisable:
    pass
  return dict(extra, **{"one_signature": (one, synth.build(one, 0, name_fn=nf)), "two_signatures": (dict(two, sigtabrev=False), synth.build(dict(two, sigtabrev=False), 0, name_fn=nf)),
          "two_signatures_table_reversed": (two_rev, synth.build(two_rev, 0, name_fn=nf))})


def patterns(names):
  pats = [".*", "model", "^model", "dense|enc", "add", "add$", "y$", ":0$", "^serving", "MatMul;model", "BiasAdd;", "x:0;", "/"]
  for n in names:
    e = re.escape(n)
    pats += [e, "^" + e, e + "$", "^" + e + "$", e + ";", "^" + e + ";$", n[: max(3, len(n) // 2)], re.escape(n[len(n) // 2:]) + "$"]
  out = []
  for p in pats:
    try:
      re.compile(p)
      if p not in out:
        out.append(p)
    except re.error:
      pass
  return out


def component_scopes(model_bytes):
  """The scope string each component computes for every operator (incl. the virtual I/O operators)."""
  from ai_edge_quantizer import calibrator, params_generator
  from ai_edge_quantizer.utils import tfl_flatbuffer_utils as fu
  cal = calibrator.Calibrator(model_bytes)
  pg = params_generator.ParamsGenerator(model_bytes)
  pairs = []
  m = fu.read_model(model_bytes)
  for sg in m.subgraphs:
    ops = list(sg.operators) + fu.get_subgraph_input_output_operators(sg)
    for op in ops:
      key = op.op_key.value if hasattr(op, "op_key") else fu.TFL_OP_CODE_TO_NAME.get(m.operatorCodes[op.opcodeIndex].builtinCode)
      key = getattr(key, "value", key)
      pairs.append((key, cal._get_op_scope(op, sg.tensors), pg._get_op_scope(op, sg.tensors)))  # pylint: disable=protected-access
  return pairs


def main():
  args = common.parse_args(sys.argv[2:])
  chk = common.Check("C10", "model_checking", args)
  _, Q, _, quantizer = recipe.lib()
  mods = models()
  # ---------------- design level: scope pairs x pattern alphabet in Recipe.tla
  all_pairs = []
  for mname, (scn, (model, info)) in mods.items():
    all_pairs += component_scopes(model)
  scope_strings = sorted({s for _, a, b in all_pairs for s in (a, b)})
  sid = {s: "s%d" % i for i, s in enumerate(scope_strings)}
  out_names = sorted({n for n in list(NAMES.values()) + list(NAMES_B.values()) + list(NAMES_C.values())})
  pats = patterns(out_names)
  # top-level alternations whose LATER branch matches in the middle of a scope (re.search semantics: any branch, anywhere) - never sampled away
  alts = ["nomatch|add", "zz|MatMul", "^zz|mul/y", "qq|dense/BiasAdd|rr", "out:0$|zz"]
  if args.tier == "quick":
    pats = common.sample_keep([p_ for p_ in pats if p_ not in alts], 45, args.seed)
  pats = [p_ for p_ in pats if p_ not in alts] + alts
  A = recipe.alphabet()
  A["regexes"] = {"r%d" % i: p for i, p in enumerate(pats)}
  A["scopes"] = {v: k for k, v in sid.items()}
  A["scope_pairs"] = sorted({(sid[a], sid[b]) for _, a, b in all_pairs})
  A["opsels"] = ["*", "FULLY_CONNECTED", "ADD"]
  A["queryops"] = ["FULLY_CONNECTED", "ADD"]
  A["cfgalgs"] = [("srq", "minmax"), ("dflt", "noq")]
  A["lists"] = []
  consts, tabs = recipe.tla_constants(A, 1 if args.tier == "quick" else 2, ["wcfg", "noqcfg"])
  r = tlc.run("C10_recipe", "Recipe", consts, invariants=["ScopesMatchAlike", "SelectionAgrees"], view="View", workers=16, timeout=3600)
  if not r.violated and (r.error or r.rc not in (0, 12)):
    chk.machinery("TLC failed: %s" % r.out[-800:])
  elif r.violated:
    bad = [(A["regexes"][rx], a, b) for (_, a, b) in all_pairs for rx in A["regexes"]
           if (re.search(A["regexes"][rx], a) is None) != (re.search(A["regexes"][rx], b) is None)]
    chk.violation("design-level: %s violated: a regex matches the calibration scope and the quantization scope of one operator differently, e.g. %s"
                  % (r.violated, bad[:3]), {"property": "C10", "clause": "ScopesMatchAlike", "examples": bad[:20]})
  # ---------------- spec -> code: end to end
  cfgs = {"srq": A["cfgs"]["srq"], "drq": A["cfgs"]["drq"]}
  rng = np.random.default_rng(args.seed)
  nrun = ncal = 0
  t0 = time.time()
  sel_ops = ["*", "FULLY_CONNECTED", "ADD", "TANH", "MUL", "OUTPUT", "INPUT"]
  samples = []
  for mname, (scn, (model, info)) in mods.items():
    proj = project.project(model)
    pairs = component_scopes(model)
    mpats, msel = pats, sel_ops
    if mname == "two_inputs_split":
      # its own patterns, never sampled away: every name alone and as a complete scope component
      mpats = [".*"] + [p_ for n_ in NAMES_C.values() for p_ in (re.escape(n_), re.escape(n_) + ";", "^" + re.escape(n_))]
      msel = ["*", "SPLIT", "INPUT", "OUTPUT", "ADD"]
    for pat in mpats:
      for osel in msel:
        for cname, cfg in cfgs.items():
          q = quantizer.Quantizer(model)
          try:
            q.update_quantization_recipe(pat, Q.TFLOperationName(osel), cfg)
          except ValueError:
            continue
          nrun += 1
          rep = {"property": "C10", "model": mname, "regex": pat, "operation": osel, "config": cname}
          # documented prediction on the quantization scope: which operators are quantised by this single rule
          predicted = set()
          k = 0
          for si, sub in enumerate(scn["subs"]):
            codes = scn["codes"][si] + ["INPUT", "OUTPUT"]
            for oi, code in enumerate(codes):
              key, sc_cal, sc_q = pairs[k]
              k += 1
              applicable = re.search(pat, sc_q) is not None and osel in ("*", code)
              if applicable and osel == "*":
                try:
                  from ai_edge_quantizer import algorithm_manager
                  algorithm_manager.check_op_quantization_config("min_max_uniform_quantize", Q.TFLOperationName(code), cfg)
                except ValueError:
                  applicable = False
              if applicable:
                predicted.add((si, oi))
          cal = None
          try:
            if q.need_calibration:
              ncal += 1
              for si, sub in enumerate(scn["subs"]):
                sig = [x_ for x_ in proj["sigs"] if x_["sub"] == si][0]
                data = [{n: rng.normal(size=proj["subs"][si]["tensors"][t]["shape"]).astype(np.float32) for n, t in sig["ins"]} for _ in range(2)]
                cal = q.calibrate(data, signature_key=sig["key"], previous_calibration_result=cal)
            res = q.quantize(cal)
          except Exception as e:  # pylint: disable=broad-except
            msg = "%s: %s" % (type(e).__name__, str(e)[:200])
            missing = "not found in tensor_name_to_qsv" in msg or "min and max must be provided" in msg or isinstance(e, KeyError)
            if missing:
              chk.violation("calibrate() then quantize() failed for missing statistics (%s)" % msg, dict(rep, clause="missing-stats"))
            # other rejections (e.g. buffer sharing) are outside C10
            continue
          # which operators did quantize() quantise / calibrate() calibrate
          outp = project.project(bytes(res.quantized_model))
          for si, sub in enumerate(scn["subs"]):
            tens_out = outp["subs"][si]["tensors"]
            nt0 = len(sub["trole"])
            codes = scn["codes"][si] + ["INPUT", "OUTPUT"]
            for oi, code in enumerate(codes):
              if oi < len(sub["ops"]):
                acts = [t for t in sub["ops"][oi]["ins"] + sub["ops"][oi]["outs"] if t != -1 and sub["trole"][t] == "act"]
                consts_ = [t for t in sub["ops"][oi]["ins"] if t != -1 and sub["trole"][t] in ("w", "c")]
                touched = any(tens_out[t]["dt"] != "f32" for t in sub["ops"][oi]["outs"]) or any(tens_out[t]["dt"] != "f32" for t in consts_)
              else:
                acts = sub["gins"] if code == "INPUT" else sub["gouts"]
                touched = None      # the virtual operators leave no mark of their own when their neighbours agree
              names = [MODEL_NAMES[mname][si][t] for t in acts]
              calibrated = cal is not None and all(n in cal and "min" in cal[n] for n in names)
              want = (si, oi) in predicted
              if touched is not None and touched != want:
                chk.violation("operator %s of signature %d is %squantised although the rule %r/%s %s it (quantization scope)" %
                              (code, si, "" if touched else "not ", pat, osel, "selects" if want else "does not select"),
                              dict(rep, clause="quantize-selection", op=[si, oi]))
              if cfg.activation_tensor_config is not None and want and not calibrated:
                chk.violation("operator %s selected by the rule but its runtime tensors were not calibrated" % code,
                              dict(rep, clause="calibrate-selection", op=[si, oi]))
          if len(samples) < 3:
            samples.append(dict(rep, predicted=sorted(predicted)))
  # ---------------- "quantize everything statically except X": a recipe in its JSON form (string keys, as a saved recipe holds them)
  # with an explicit no_quantize rule; calibration must skip exactly the operators quantization skips
  nexcept = 0
  srq_dict = json.loads(json.dumps(cfgs["srq"].to_dict()))
  from ai_edge_quantizer import algorithm_manager
  for mname, (scn, (model, info)) in mods.items():
    proj = project.project(model)
    pairs = component_scopes(model)
    for pat in common.sample_keep(pats, 14 if args.tier == "quick" else 10**6, args.seed + 1):
      for osel in ("*", "FULLY_CONNECTED", "ADD", "TANH", "OUTPUT"):
        rec = [{"regex": ".*", "operation": "*", "algorithm_key": "min_max_uniform_quantize", "op_config": srq_dict},
               {"regex": pat, "operation": osel, "algorithm_key": "no_quantize"}]
        rep = {"property": "C10", "model": mname, "regex": pat, "operation": osel, "config": "'*' static + no_quantize (JSON form)"}
        nexcept += 1
        predicted, k = set(), 0
        for si, sub in enumerate(scn["subs"]):
          codes = scn["codes"][si] + ["INPUT", "OUTPUT"]
          for oi, code in enumerate(codes):
            key, sc_cal, sc_q = pairs[k]
            k += 1
            try:
              algorithm_manager.check_op_quantization_config("min_max_uniform_quantize", Q.TFLOperationName(code), cfgs["srq"])
              sup = True
            except ValueError:
              sup = False
            if sup and not (re.search(pat, sc_q) is not None and osel in ("*", code)):
              predicted.add((si, oi))
        try:
          q = quantizer.Quantizer(model, rec)
          cal = None
          for si, sub in enumerate(scn["subs"]):
            sig = [x_ for x_ in proj["sigs"] if x_["sub"] == si][0]
            data = [{n: rng.normal(size=proj["subs"][si]["tensors"][t]["shape"]).astype(np.float32) for n, t in sig["ins"]} for _ in range(2)]
            cal = q.calibrate(data, signature_key=sig["key"], previous_calibration_result=cal)
          res = q.quantize(cal)
        except Exception as e:  # pylint: disable=broad-except
          msg = "%s: %s" % (type(e).__name__, str(e)[:200])
          if "share the same buffer" in msg:
            continue
          chk.violation("calibrate() then quantize() failed for an accepted recipe with a no_quantize rule (%s)" % msg, dict(rep, clause="except-recipe"))
          continue
        outp = project.project(bytes(res.quantized_model))
        for si, sub in enumerate(scn["subs"]):
          tens_out = outp["subs"][si]["tensors"]
          for oi, o in enumerate(sub["ops"]):
            consts_ = [t for t in o["ins"] if t != -1 and sub["trole"][t] in ("w", "c")]
            touched = any(tens_out[t]["dt"] != "f32" for t in o["outs"]) or any(tens_out[t]["dt"] != "f32" for t in consts_)
            if touched != ((si, oi) in predicted):
              chk.violation("operator %d of signature %d is %squantised under '*' static + no_quantize %r/%s" % (oi, si, "" if touched else "not ", pat, osel),
                            dict(rep, clause="except-selection", op=[si, oi]))
  chk.cov.update({
      "except_recipes_run": nexcept,
      "states": r.distinct, "transitions": r.generated, "traces_validated_against_impl": nrun, "needed_calibration": ncal,
      "patterns": len(pats), "scope_pairs": len(A["scope_pairs"]), "models": list(mods),
      "evaluations": nrun, "distinct_nontrivial": ncal,
      "rule": "(model in {one signature, two signatures} with converter-style names) x regex pattern (anchored, unanchored, full names, "
              "prefixes, names with ';' ':' '/') x operator selector x {static, dynamic} config; non-trivial = needs calibration",
      "samples": samples, "wall_impl_s": round(time.time() - t0, 1), "exhaustive": True,
  })
  chk.assumptions += ["regex semantics are Python's re.search", "scope strings are read from the two components (Calibrator._get_op_scope, "
                      "ParamsGenerator._get_op_scope) on the real models"]
  return chk.finish()


if __name__ == "__main__":
  sys.exit(main())
