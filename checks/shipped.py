#!/venv/bin/python
"""C08: the shipped default recipes quantize every supported-op graph without rejection.

design    : Pipeline.tla under the mode map each shipped recipe induces (read from the implementation's own
            resolution of the unchanged JSON file), invariant NeverRaises over all graphs of the bound
            (a may-raise analysis under generic statistics)
spec->code: every enumerated graph (sampled in the quick tier) and seeded random larger graphs are built, the
            JSON recipe is loaded UNCHANGED, calibrated with the real calibrate() on random data when it needs
            calibration, and quantize() must return; the observed return/raise event decides.
"""
import concurrent.futures as cf
import glob
import json
import os
import sys
import time

sys.path.insert(0, os.path.dirname(os.path.dirname(os.path.abspath(__file__))))
from harness import common  # pylint: disable=g-import-not-at-top

common.setup_env()
from harness import configs, pipecheck, rgen, synth, tlc  # pylint: disable=g-import-not-at-top

SHIPPED = ["default_a8w8_recipe.json", "default_a16w8_recipe.json", "default_af32w8float_recipe.json",
           "default_af32w4float_recipe.json", "dynamic_wi8_afp32_recipe.json"]
KINDS_2 = ["FC", "EW2", "EW1", "SAMEIN0", "CONCAT", "FIXT", "FIXSL", "UNSUP", "BMM", "SPLIT"]
KINDS_3 = ["EW2", "CONCAT", "FIXT", "UNSUP", "FC"]


def classify(alg, cfg):
  """(algorithm, OpQuantizationConfig) -> mode record (as a TLA+ expression)."""
  alg = str(getattr(alg, "value", alg))
  if alg == "no_quantize":
    return configs.NOQ
  if alg == "float_casting":
    return configs.M("F16")
  w = cfg.weight_tensor_config
  wid = "w%d%s%s" % (w.num_bits, "c" if str(getattr(w.granularity, "value", w.granularity)) == "CHANNELWISE" else "t", "" if w.symmetric else "a")
  if cfg.activation_tensor_config is not None:
    a = cfg.activation_tensor_config
    aid = "a16" if a.num_bits == 16 else ("a8s" if a.symmetric else "a8a")
    return configs.M("SRQ", aid, wid)
  if str(getattr(cfg.compute_precision, "value", cfg.compute_precision)) == "INTEGER":
    return configs.M("DRQ", "-", wid)
  return configs.M("WO", "-", wid)


def induced_modes(recipe_path):
  """Mode per kind and for INPUT/OUTPUT as the implementation resolves the unchanged recipe file."""
  from ai_edge_quantizer import qtyping as Q, recipe_manager
  rm = recipe_manager.RecipeManager()
  rm.load_quantization_recipe(json.load(open(recipe_path)))
  km, mixed = {}, []
  for kind, members in synth.KIND_MEMBERS.items():
    if kind in ("UNSUP", "UNSUP2"):
      km[kind] = [configs.NOQ]
      continue
    ms = [classify(*rm.get_quantization_configs(Q.TFLOperationName(m), "any_scope;")) for m in members]
    if len(set(ms)) > 1:
      mixed.append((kind, dict(zip(members, ms))))
    km[kind] = [ms[0]]       # the concretiser's first member; the replay uses the real resolution anyway
  io = [classify(*rm.get_quantization_configs(Q.TFLOperationName(o), "any_scope;")) for o in ("INPUT", "OUTPUT")]
  return km, io, mixed


def f20(scn, rec, res, r):
  """Known finding F20: one constant (generic constant or bias) feeds two or more operators under a static-range recipe that
  derive different parameters for it, and the rejection names exactly that constant (twice)."""
  if rec not in ("default_a8w8_recipe.json", "default_a16w8_recipe.json") or "share the same buffer" not in res:
    return False
  for si, sub in enumerate(scn["subs"]):
    for t, role in enumerate(sub["trole"]):
      if role not in ("c", "b"):
        continue
      users = [o for o in sub["ops"] if t in o["ins"]]
      name = synth.tname(si, t, len(scn["subs"]))
      # the sharers need different versions of the constant: a concatenation among them (output's parameters), a bias (input x
      # weight scale of each user), or an operator the quantizer does not know (float copy) next to a quantised one
      differ = (role == "c" and any(o["kind"] in ("CONCAT", "CONCAT3", "UNSUP", "UNSUP2") for o in users)) or role == "b"
      if len(users) >= 2 and differ and res.count("b'%s'" % name) == 2:
        return True
  return False


_W = {}


def _winit():
  common.setup_env()
  from absl import logging as alog
  alog.set_verbosity(alog.ERROR)
  from ai_edge_quantizer import quantizer
  _W["q"] = quantizer


def _task(item):
  import numpy as np
  scn, seed = item["scn"], item["seed"]
  out = {"key": synth.scn_key(scn), "res": {}}
  try:
    model, info = synth.build(scn, seed)
  except synth.Unrealisable as e:
    out["unreal"] = str(e)
    return out
  out["codes"] = info["codes"]
  rng = np.random.default_rng(seed)
  for rec in item["recipes"]:
    try:
      if rec.startswith("helper:"):
        from ai_edge_quantizer import recipe as _helpers
        q = _W["q"].Quantizer(model, getattr(_helpers, rec[7:])())
      else:
        q = _W["q"].Quantizer(model, os.path.join(common.REPO, "ai_edge_quantizer/recipes", rec))
      cal = None
      if q.need_calibration:
        cal = {}
        for si, sub in enumerate(scn["subs"]):
          key = "serving_default" if si == 0 else "sig%d" % si
          data = [{"x%d" % i: np.abs(rng.normal(size=info["shapes"][si][t])).astype(np.float32) + 0.05 for i, t in enumerate(sub["gins"])}
                  for _ in range(2)]
          cal = q.calibrate(common.as_dataset(data, seed + si + len(rec)), signature_key=key, previous_calibration_result=cal or None)
      q.quantize(cal)
      out["res"][rec] = "returned"
    except Exception as e:  # pylint: disable=broad-except
      out["res"][rec] = "raised %s: %s" % (type(e).__name__, str(e)[:160])
  return out


def main():
  args = common.parse_args(sys.argv[2:])
  chk = common.Check("C08", "model_checking", args)
  recdir = os.path.join(common.REPO, "ai_edge_quantizer/recipes")
  states = trans = 0
  scenarios = {}
  per_cfg = {}
  kf = {f["id"]: f for f in chk.kf.get("findings", []) if "C08" in f["property"]}
  for rec in SHIPPED:
    km, io, mixed = induced_modes(os.path.join(recdir, rec))
    for name, (nops, kinds, nsub) in {"1op_allkinds": (1, configs.ALL_KINDS, 1), "2op": (2, KINDS_2, 1), "3op": (3, KINDS_3, 1)}.items():
      if args.tier == "quick" and name == "3op":
        continue
      c = configs.cfg(nops, kinds, [], [], [io[0]], share="tensor", max_sub=nsub, km={k: km[k] for k in kinds})
      c["IOModes"] = configs.S([io[0]])
      r, dumps = pipecheck.design_run("C08_%s_%s" % (rec.split("_recipe")[0], name), c, [], timeout=3600)
      states += r.distinct
      trans += r.generated
      if r.error or r.rc not in (0, 12):
        chk.machinery("TLC failed on %s/%s: %s" % (rec, name, r.out[-500:]))
        continue
      raised = [d for d in dumps.values() if d["pc"] == "raised"]
      per_cfg["%s/%s" % (rec, name)] = {"states": r.distinct, "scenarios": len(dumps), "design_may_raise": len(raised),
                                        "raise_sites": sorted({d["why"] for d in raised})}
      for k, d in dumps.items():
        scenarios.setdefault(k, {"scn": d["scn"], "pred": {}})["pred"][rec] = (d["pc"], d["why"])
  # the recipe helpers (recipe.py): every public function without parameters that returns a rule list
  import inspect
  from ai_edge_quantizer import recipe as _helpers
  helpers = ["helper:" + n for n, f in sorted(vars(_helpers).items())
             if inspect.isfunction(f) and not n.startswith("_") and not inspect.signature(f).parameters]
  all_recipes = SHIPPED + helpers
  # graph structure only matters: strip modes (the real recipe resolution decides them)
  graphs = {}
  for k, v in scenarios.items():
    g = json.dumps(v["scn"]["subs"], sort_keys=True)
    graphs.setdefault(g, v)
  keys = sorted(graphs)
  chosen = common.sample_keep(keys, 600 if args.tier == "quick" else 30000, args.seed)
  noq = rgen.NOQ
  items = []
  for g in chosen:
    scn = graphs[g]["scn"]
    scn = dict(scn, mode=[[noq for _ in sub["ops"]] for sub in scn["subs"]], inmode=noq, outmode=noq)
    items.append(dict(scn=scn, seed=args.seed, recipes=all_recipes, tag="tlc"))
  nrand = 120 if args.tier == "quick" else 4000
  for i in range(nrand):
    scn = rgen.gen(args.seed * 7919 + i, 3, 8, nsub=1)
    scn = dict(scn, mode=[[noq for _ in sub["ops"]] for sub in scn["subs"]], inmode=noq, outmode=noq)
    items.append(dict(scn=scn, seed=args.seed + i, recipes=all_recipes, tag="random"))
  t0 = time.time()
  results = []
  with cf.ProcessPoolExecutor(max_workers=args.procs, initializer=_winit) as ex:
    for r in ex.map(_task, items, chunksize=8):
      results.append(r)
  nrun = nret = 0
  raise_kinds = {}
  for it, r in zip(items, results):
    if r.get("unreal") is not None:
      continue
    for rec, res in r["res"].items():
      nrun += 1
      if res == "returned":
        nret += 1
        continue
      raise_kinds[res[:60]] = raise_kinds.get(res[:60], 0) + 1
      fid = None
      if "F20" in kf and f20(it["scn"], rec, res, r):
        fid = "F20"
      if fid:
        chk.known(fid)
      else:
        chk.violation("shipped recipe %s rejected a supported-op graph: %s" % (rec, res),
                      {"property": "C08", "scenario": it["scn"], "codes": r.get("codes"), "recipe": rec, "seed": it["seed"], "result": res})
  if nret == 0:
    chk.machinery("vacuous: no quantize() call returned")
  chk.cov.update({
      "states": states, "transitions": trans, "traces_validated_against_impl": nrun,
      "graphs_enumerated": len(graphs), "graphs_replayed": len([r for r in results if r.get("unreal") is None]),
      "recipe_helpers": helpers, "recipe_runs": nrun, "returned": nret, "raise_kinds": raise_kinds, "configs": per_cfg,
      "evaluations": nrun, "distinct_nontrivial": len([r for r in results if r.get("unreal") is None]),
      "rule": "graph = DAG over the operator kinds (shared inputs, concatenations of shared tensors, squared tensors, unsupported ops "
              "between supported ones, intermediate tensors exported) enumerated by TLC up to the bound + seeded random 3-8 op graphs; "
              "each run with the 5 shipped JSON recipes loaded unchanged, and with every recipe helper of recipe.py, and real calibrate() on random data",
      "samples": [dict(scenario=items[i]["scn"]["subs"], result=results[i].get("res")) for i in (0, len(items) - 1)],
      "impl_wall_s": round(time.time() - t0, 1), "exhaustive": len(chosen) == len(keys),
  })
  chk.assumptions += ["design-level raise analysis uses generic statistics (over-approximates raises that depend on coinciding ranges); "
                      "the verdict comes from the observed return/raise of the real API with real calibration"]
  return chk.finish()


if __name__ == "__main__":
  sys.exit(main())
