#!/venv/bin/python
"""C09: calibration statistics are exact, order-faithful and resumable.

design    : TLC explores spec/Calib.tla (all selections of operators, all splits of the dataset into resumed
            sessions, resuming from any earlier result) and checks ExactFold, Resumes, PrevUntouched, OnlySelected
spec->code: every complete behaviour is replayed through the real Quantizer.calibrate() on a model realising the
            operator list; every returned result must equal, tensor by tensor, the exponential moving average of the
            TRUE per-sample min/max (measured by the harness's own interpreter run) folded in the order the
            specification predicts, and the previous results passed in must compare equal before and after.
"""
import concurrent.futures as cf
import copy
import json
import os
import sys
import time

sys.path.insert(0, os.path.dirname(os.path.dirname(os.path.abspath(__file__))))
from harness import common  # pylint: disable=g-import-not-at-top

common.setup_env()
from harness import pipeline, synth, tlc  # pylint: disable=g-import-not-at-top
import numpy as np  # pylint: disable=g-import-not-at-top

NOQ = {"m": "NOQ", "a": "-", "w": "-"}
SRQ = {"m": "SRQ", "a": "a8a", "w": "w8c"}
def _m(*subs):
  return {"subs": [{k: v for k, v in sub.items() if k != "codes"} for sub in subs], "codes": [sub["codes"] for sub in subs]}


CHAIN = {"ops": [{"kind": "EW1", "ins": [0], "outs": [1]}, {"kind": "FIXT", "ins": [1], "outs": [2]}],
         "trole": ["act", "act", "act"], "gins": [0], "gouts": [2], "codes": ["GELU", "TANH"]}
FC_ADD = {"ops": [{"kind": "FC", "ins": [0, 1, 2], "outs": [3]}, {"kind": "EW2", "ins": [3, 0], "outs": [4]}],
          "trole": ["act", "w", "b", "act", "act"], "gins": [0], "gouts": [4], "codes": ["FULLY_CONNECTED", "ADD"]}
TWO_IN = {"ops": [{"kind": "EW2", "ins": [0, 1], "outs": [2]}, {"kind": "SAMEIN0", "ins": [2], "outs": [3]},
                  {"kind": "EW2", "ins": [3, 4], "outs": [5]}],
          "trole": ["act", "act", "act", "act", "c", "act"], "gins": [0, 1], "gouts": [2, 5], "codes": ["ADD", "AVERAGE_POOL_2D", "MUL"]}
MUL1 = {"ops": [{"kind": "EW2", "ins": [0, 1], "outs": [2]}], "trole": ["act", "c", "act"], "gins": [0], "gouts": [2], "codes": ["MUL"]}
MODELS = {"chain": _m(CHAIN), "fc_add": _m(FC_ADD), "two_in": _m(TWO_IN),
          # two signatures, calibrated one at a time (the tensors of the other signature keep their - possibly empty - entries)
          "two_sig": dict(_m(FC_ADD, MUL1), sigtabrev=False),
          "two_sig_table_reversed": dict(_m(FC_ADD, MUL1), sigtabrev=True),      # signature table not in subgraph order
          # a STATEFUL model: an RNN cell (unknown to the quantizer, state in a variable tensor) between two FULLY_CONNECTED ops;
          # "true per-sample min and max" are those of each sample run from the initial state
          "stateful": dict(_m(dict(synth.STATEFUL_CHAIN, codes=["FULLY_CONNECTED", "RNN", "FULLY_CONNECTED"])), stateful=True),
          # an INTEGER runtime tensor through a selected operator: its min/max are recorded and averaged like any other
          "int32_transpose": dict(_m(dict(synth.INT32_TRANSPOSE, codes=["TRANSPOSE"])), int32=True)}


def runtime_view(model):
  """Operator list over runtime (activation) tensors only, numbered 0..NT-1 across the subgraphs."""
  acts, idx = [], {}
  for si, sub in enumerate(model["subs"]):
    for t, r in enumerate(sub["trole"]):
      if r == "act":
        idx[(si, t)] = len(acts)
        acts.append((si, t))
  ops, gins, gouts = [], [], []
  for si, sub in enumerate(model["subs"]):
    for o in sub["ops"]:
      ops.append("[ins |-> <<%s>>, outs |-> <<%s>>, sub |-> %d]" % (", ".join(str(idx[(si, t)]) for t in o["ins"] if (si, t) in idx),
                                                                     ", ".join(str(idx[(si, t)]) for t in o["outs"]), si + 1))
    gins.append("<<%s>>" % ", ".join(str(idx[(si, t)]) for t in sub["gins"]))
    gouts.append("<<%s>>" % ", ".join(str(idx[(si, t)]) for t in sub["gouts"]))
  return acts, idx, dict(Ops="<<%s>>" % ", ".join(ops), GIns="<<%s>>" % ", ".join(gins), GOuts="<<%s>>" % ", ".join(gouts), NT=str(len(acts)))


def ema(values):
  v = None
  for x in values:
    x = np.asarray(x, np.float32)
    v = x if v is None else (np.float32(0.95) * v + np.float32(1.0 - 0.95) * x).astype(np.float32)
  return v


_W = {}


def _winit():
  common.setup_env()
  from absl import logging as alog
  alog.set_verbosity(alog.ERROR)


def _replay(item):
  from ai_edge_quantizer import quantizer, qtyping as Q
  from ai_edge_litert import interpreter as tfl
  mname, beh, seed, nsamples = item
  zero_first = [False]
  mdl = MODELS[mname]
  nsub = len(mdl["subs"])
  # beh["sel"] runs over the operators of all subgraphs in order
  modes, k = [], 0
  for sub in mdl["subs"]:
    modes.append([SRQ if on else NOQ for on in beh["sel"][k:k + len(sub["ops"])]])
    k += len(sub["ops"])
  scn = {"subs": mdl["subs"], "mode": modes, "inmode": SRQ if beh["selIn"] else NOQ, "outmode": SRQ if beh["selOut"] else NOQ, "codes": mdl["codes"],
         "sigtabrev": mdl.get("sigtabrev")}
  if mdl.get("stateful"):
    if beh["sel"][1]:
      return {"model": mname, "beh": beh, "problems": [], "compared": 0, "need_cal": False}      # the RNN cell cannot be selected
    model, info = synth.stateful_chain(seed)
  elif mdl.get("int32"):
    model, info = synth.int32_transpose(seed)
  else:
    model, info = synth.build(scn, seed)
  acts, idx, _ = runtime_view(mdl)
  rng = np.random.default_rng(seed + 17)
  from harness import project as _project
  proj = _project.project(model)
  sigkey = {s_["sub"]: s_["key"] for s_ in proj["sigs"]}
  signames = {s_["sub"]: [n for n, _ in s_["ins"]] for s_ in proj["sigs"]}
  # samples of very different magnitude: dropping, duplicating or reordering one moves the average far beyond tolerance;
  # sample k exists for every signature (a session feeds it to the signature it calibrates)
  data = []
  for k in range(nsamples):
    if mdl.get("int32"):
      data.append({0: {"x0": (rng.integers(-9, 10, size=info["shapes"][0][0]) * (1 + 3 * k) + k).astype(np.int32)}})
      continue
    data.append({si: {"x%d" % i: (rng.normal(size=info["shapes"][si][t]) * (1.0 + 2.5 * k)).astype(np.float32) + np.float32(0.3 * k)
                      for i, t in enumerate(sub["gins"])} for si, sub in enumerate(mdl["subs"])})
  # in a third of the behaviours the first sample is all zeros (a warm-up sample): the running statistics of the inputs are then
  # exactly (0, 0) when the next sample is folded - a recorded range like any other
  import zlib
  if not mdl.get("int32") and zlib.crc32(json.dumps(beh, sort_keys=True).encode()) % 3 == 0:
    data[0] = {si: {n: np.zeros_like(v) for n, v in d.items()} for si, d in data[0].items()}
    zero_first[0] = True
  # true per-sample min/max from the harness's own interpreter run
  it = tfl.Interpreter(model_content=model, experimental_preserve_all_tensors=True,
                       experimental_op_resolver_type=tfl.OpResolverType.BUILTIN_WITHOUT_DEFAULT_DELEGATES)
  truth = []
  for d in data:
    tr = {}
    for si, sub in enumerate(mdl["subs"]):
      if mdl.get("stateful"):      # every sample is run from the initial state: a fresh interpreter per sample
        it = tfl.Interpreter(model_content=model, experimental_preserve_all_tensors=True,
                             experimental_op_resolver_type=tfl.OpResolverType.BUILTIN_WITHOUT_DEFAULT_DELEGATES)
      runner = it.get_signature_runner(sigkey[si])
      runner(**d[si])
      details = {x["name"]: x["index"] for x in it.get_tensor_details(subgraph_index=si)} if nsub > 1 else {x["name"]: x["index"] for x in it.get_tensor_details()}
      for (sj, t) in acts:
        if sj == si:
          v = it.get_tensor(details[info["names"][si][t]], subgraph_index=si) if nsub > 1 else it.get_tensor(details[info["names"][si][t]])
          tr[(si, t)] = (float(np.min(v)), float(np.max(v)))
    truth.append(tr)
  min_model = _project.read(model)
  q = quantizer.Quantizer(model)
  pipeline.apply_recipe(q, scn, info)
  out = {"model": mname, "beh": beh, "problems": [], "compared": 0, "need_cal": bool(q.need_calibration)}
  if not q.need_calibration:
    return out
  results, snaps = [], []
  # hook H3: the calibrator appends its steps to this file; the harness adds one "call" line with the arguments before every call
  tpath = os.path.join(tlc.WORK, "calib_trace_%d.ndjson" % os.getpid())
  os.makedirs(tlc.WORK, exist_ok=True)
  open(tpath, "w").close()
  os.environ["AI_EDGE_QUANTIZER_VERIF_CALIB_TRACE"] = tpath
  name2id = {info["names"][si][t]: idx[(si, t)] for (si, t) in acts}
  for r, b in enumerate(beh["base"]):
    prev, first, last, g = b
    prev_obj = results[prev - 1] if prev else None
    before = copy.deepcopy(results)
    with open(tpath, "a") as f:
      f.write(json.dumps({"ev": "call", "prev": prev, "first": first, "last": last, "sig": g}) + "\n")
    try:
      # the dataset is handed over as a list, a generator or a one-shot iterator (all are `Iterable`)
      dataset = common.as_dataset([d[g - 1] for d in data[first - 1:last]], seed + r + len(beh["base"]) + sum(map(int, beh["sel"])))
      res = q.calibrate(dataset, signature_key=sigkey[g - 1] if nsub > 1 else None, previous_calibration_result=prev_obj)
    except Exception as e:  # pylint: disable=broad-except
      out["problems"].append(("raise", "session %d raised %s: %s" % (r + 1, type(e).__name__, str(e)[:120])))
      return out
    # previous results (caller-owned) untouched
    for j, (a, bb) in enumerate(zip(before, results)):
      if not _deep_equal(a, bb):
        out["problems"].append(("prev-modified", "result %d changed while running session %d" % (j + 1, r + 1)))
    results.append(res)
    snaps.append(copy.deepcopy(res))
    # exactness against the predicted fold sequence
    for (si, t) in acts:
      rr = beh["results"][r]
      seq = rr[str(idx[(si, t)])] if isinstance(rr, dict) else rr[idx[(si, t)]]
      name = info["names"][si][t]
      if seq == [-1]:
        if name in res and res[name]:
          out["problems"].append(("unselected", "tensor %s of no selected operator has statistics" % name))
        continue
      if not seq:
        # selected, but its signature has not been calibrated yet (or only on an empty dataset): an empty entry, no statistics
        if name in res and res[name]:
          out["problems"].append(("value", "%s has statistics after session %d although no sample of its signature was folded" % (name, r + 1)))
        continue
      if name not in res or not res[name]:
        out["problems"].append(("missing", "no statistics for %s after session %d" % (name, r + 1)))
        continue
      emn, emx = ema([truth[s - 1][(si, t)][0] for s in seq]), ema([truth[s - 1][(si, t)][1] for s in seq])
      gmn, gmx = float(np.asarray(res[name]["min"]).flatten()[0]), float(np.asarray(res[name]["max"]).flatten()[0])
      out["compared"] += 1
      tol = 1e-5 * max(1.0, abs(float(emn)), abs(float(emx)))
      if abs(gmn - float(emn)) > tol or abs(gmx - float(emx)) > tol:
        out["problems"].append(("value", "%s after session %d: min/max %.6g/%.6g, expected fold %s = %.6g/%.6g" %
                                (name, r + 1, gmn, gmx, seq, float(emn), float(emx))))
    # constants of selected operators: true per-tensor / per-channel min and max
    oi_g = -1
    for si, sub in enumerate(mdl["subs"]):
     for o in sub["ops"]:
      oi_g += 1
      if not beh["sel"][oi_g]:
        continue
      for t in o["ins"]:
        if t != -1 and sub["trole"][t] in ("w", "b", "c"):
          name = info["names"][si][t]
          if sub["trole"][t] == "b":
            continue     # biases take input x weight scale: no statistics of their own
          if name not in res or "min" not in res[name]:
            out["problems"].append(("const-missing", "constant %s of a selected operator has no statistics" % name))
            continue
          tensor = min_model.subgraphs[si].tensors[t]
          cdata = np.frombuffer(np.asarray(min_model.buffers[tensor.buffer].data, np.uint8).tobytes(), np.float32).reshape(tensor.shape)
          # the static config of these models quantises weights per channel (dimension 0 for FULLY_CONNECTED), generic
          # constant operands per tensor: true min / max along the other dimensions
          if sub["trole"][t] == "w":
            tmn, tmx = cdata.min(axis=tuple(range(1, cdata.ndim)), keepdims=True), cdata.max(axis=tuple(range(1, cdata.ndim)), keepdims=True)
          else:
            tmn, tmx = cdata.min(keepdims=True), cdata.max(keepdims=True)
          gmn, gmx = np.asarray(res[name]["min"]), np.asarray(res[name]["max"])
          out["compared"] += 1
          if gmn.shape != tmn.shape or not np.array_equal(gmn, tmn) or not np.array_equal(gmx, tmx):
            out["problems"].append(("const-value", "statistics of constant %s differ from its true %s min/max" % (name, "per-channel" if sub["trole"][t] == "w" else "per-tensor")))
  # the recorded steps, tensor names renamed to the specification's runtime-tensor ids (constants dropped)
  events = []
  for line in open(tpath):
    e = json.loads(line)
    for k in ("filled", "empty", "updated"):
      if k in e:
        e[k] = sorted(name2id[n] for n in e[k] if n in name2id)
    events.append(e)
  os.unlink(tpath)
  out["trace"] = {"sel": [bool(x) for x in beh["sel"]], "selIn": bool(beh["selIn"]), "selOut": bool(beh["selOut"]), "events": events}
  return out


def _deep_equal(a, b):
  if isinstance(a, dict):
    return isinstance(b, dict) and a.keys() == b.keys() and all(_deep_equal(a[k], b[k]) for k in a)
  if isinstance(a, (list, tuple)):
    return len(a) == len(b) and all(_deep_equal(x, y) for x, y in zip(a, b))
  if isinstance(a, np.ndarray) or isinstance(b, np.ndarray):
    return np.array_equal(np.asarray(a), np.asarray(b), equal_nan=True)
  return a == b


def main():
  args = common.parse_args(sys.argv[2:])
  chk = common.Check("C09", "model_checking", args)
  nsamples, maxsess = (3, 2) if args.tier == "quick" else (4, 3)
  states = trans = 0
  items = []
  per_model = {}
  for mname, mdl in MODELS.items():
    _, _, consts = runtime_view(mdl)
    consts.update(NSamples=str(nsamples), MaxSessions=str(maxsess), Fixes=tlc.tla_str_set(["deepcopy", "once"]))
    r = tlc.run("C09_%s" % mname, "Calib", consts, invariants=["ExactFold", "Resumes", "PrevUntouched", "OnlySelected"],
                constraints=["EmitB"], workers=16, timeout=3600)
    states += r.distinct
    trans += r.generated
    if r.error or r.rc not in (0, 12):
      chk.machinery("TLC failed on Calib/%s: %s" % (mname, r.out[-600:]))
      continue
    if r.violated:
      chk.violation("design-level: %s violated in Calib.tla (%s)" % (r.violated, mname), {"tlc": r.out[-3000:]})
    behs = {}
    for line in r.printed("BEHAV"):
      try:
        b = json.loads(json.loads(line[line.index(",") + 1:line.rindex(">>")].strip()))
        behs[json.dumps(b, sort_keys=True)] = b
      except Exception:  # pylint: disable=broad-except
        pass
    per_model[mname] = {"states": r.distinct, "behaviours": len(behs)}
    chosen = common.sample_keep(sorted(behs), 250 if args.tier == "quick" else 10**9, args.seed)
    items += [(mname, behs[k], args.seed, nsamples) for k in chosen]
  t0 = time.time()
  results = []
  with cf.ProcessPoolExecutor(max_workers=args.procs, initializer=_winit) as ex:
    for out in ex.map(_replay, items, chunksize=4):
      results.append(out)
  # ---- step-level trace validation (CalibTrace.tla), one TLC run per model
  nacc = nrej = nev = 0
  for mname, mdl in MODELS.items():
    trs = [(i, o["trace"]) for i, o in enumerate(results) if o["model"] == mname and o.get("trace") and o["trace"]["events"]]
    if not trs:
      continue
    _, _, consts = runtime_view(mdl)
    consts.update(NSamples=str(nsamples), MaxSessions=str(maxsess), Fixes=tlc.tla_str_set(["deepcopy", "once"]))
    tp = os.path.join(tlc.WORK, "C09_trace_%s.json" % mname)
    json.dump([t for _, t in trs], open(tp, "w"))
    rt = tlc.run("C09_trace_%s" % mname, "CalibTrace", consts, constraints=["EmitT"], spec_name="TraceSpec", workers=16, env={"TRACE_FILE": tp},
                 extends="CalibTrace", timeout=3600)
    best = {}
    for line in rt.printed("TVERDICT"):
      try:
        v = json.loads(json.loads(line[line.index(",") + 1:line.rindex(">>")].strip()))
      except Exception:  # pylint: disable=broad-except
        continue
      if v["ti"] not in best or (v["accepted"] and not best[v["ti"]]["accepted"]) or (not best[v["ti"]]["accepted"] and v["consumed"] > best[v["ti"]]["consumed"]):
        best[v["ti"]] = v
    if rt.error or len(best) != len(trs):
      chk.machinery("CalibTrace run failed on %s: %d verdicts for %d traces: %s" % (mname, len(best), len(trs), rt.out[-500:]))
      continue
    states += rt.distinct
    trans += rt.generated
    for k, (i, t) in enumerate(trs):
      v = best[k + 1]
      nev += len(t["events"])
      if v["accepted"]:
        nacc += 1
        if not (v["exact"] and v["untouched"] and v["onlysel"]):
          chk.violation("property predicate false on the state reconstructed from the recorded calibration steps: %s" % v,
                        {"property": "C09", "model": mname, "behaviour": results[i]["beh"], "clause": "trace-state", "verdict": v})
      else:
        nrej += 1
        nxt = t["events"][v["consumed"]] if v["consumed"] < len(t["events"]) else None
        chk.note("spec-drift calibration trace of %s rejected at event %d (%s); behaviour %s" % (mname, v["consumed"] + 1, nxt, json.dumps(results[i]["beh"]["base"])))
  compared = 0
  for out in results:
    compared += out["compared"]
    for kind, msg in out["problems"]:
      chk.violation("%s: %s" % (kind, msg), {"property": "C09", "model": out["model"], "behaviour": out["beh"], "clause": kind})
  if compared == 0:
    chk.machinery("vacuous: no statistics compared")
  chk.cov.update({
      "states": states, "transitions": trans, "traces_validated_against_impl": len(results), "tensor_statistics_compared": compared,
      "step_level_traces_accepted": nacc, "step_level_traces_rejected": nrej, "hook_events_validated": nev,
      "models": per_model, "samples_per_dataset": nsamples, "max_sessions": maxsess,
      "evaluations": len(results), "distinct_nontrivial": sum(1 for o in results if o["need_cal"]),
      "rule": "behaviour = (selection of operators incl. virtual INPUT/OUTPUT, split of the dataset into sessions - possibly empty ones -, the "
              "signature each session calibrates, which earlier result each session resumes from - also twice from the same one); all "
              "enumerated by TLC; non-trivial = the recipe needs calibration",
      "samples": [dict(model=o["model"], behaviour=o["beh"]) for o in results[:2]] + [dict(trace=o.get("trace")) for o in results[:1]], "replay_wall_s": round(time.time() - t0, 1),
      "exhaustive": args.tier == "thorough",
  })
  chk.assumptions += ["true per-sample min/max come from the harness's own LiteRT interpreter run (preserve_all_tensors)",
                      "float32 evaluation of the moving average; tolerance 1e-5 relative; samples scaled so that a dropped/duplicated/"
                      "reordered sample moves the result by far more"]
  return chk.finish()


if __name__ == "__main__":
  sys.exit(main())
