#!/venv/bin/python
"""C06: float-compute modes equal the float model run with dequantized constants.

structural half (TLC): for weight-only / float16 / dynamic-range scenarios (enumerated by TLC over Pipeline.tla, plus
  random graphs run through PipelineFrom.tla) Skeleton, ModesRespected and SharedConstOK are evaluated by TLC on the
  observed output graph: the output program IS the input program with every rewritten constant replaced by
  DEQUANTIZE(enc(c)) (or an integer weight handed to a hybrid kernel).
execution half (interpreter observation): the reference float model is built from the INPUT flatbuffer plus the
  constants decoded from the OUTPUT bytes by an independent decoder; both models run in the reference interpreter on
  random inputs. Weight-only / float16: agreement up to float32 rounding. Dynamic-range: within the analytic bound of the
  runtime's dynamic 8-bit activation quantisation, for operators that read graph inputs and write graph outputs
  (deeper dynamic-range graphs are covered by the structural half only, and counted).
"""
import copy
import json
import os
import sys
import time

sys.path.insert(0, os.path.dirname(os.path.dirname(os.path.abspath(__file__))))
from harness import common  # pylint: disable=g-import-not-at-top

common.setup_env()
from harness import configs, pipecheck, pipeline, project, rgen, synth  # pylint: disable=g-import-not-at-top
import numpy as np  # pylint: disable=g-import-not-at-top

M = configs.M
FLOAT_MODES = [configs.NOQ, M("WO", "-", "w8c"), M("WO", "-", "w8ca"), M("WO", "-", "w4c"), M("WO", "-", "w8t"), M("F16"), M("DRQ", "-", "w8c"), M("DRQ", "-", "w8t")]


def decode_constant(raw, t):
  """Independent decoder of a stored constant: TFLite storage format + the tensor's own parameters -> float32 values."""
  shape = t["shape"]
  n = int(np.prod(shape)) if shape else 1
  dt = t["dt"]
  if dt == "f16":
    return np.frombuffer(raw, np.float16).astype(np.float32).reshape(shape)
  if dt == "i4":
    b = np.frombuffer(raw, np.uint8)
    lo, hi = (b & 0x0F).astype(np.int16), (b >> 4).astype(np.int16)
    q = np.empty(len(b) * 2, np.int16)
    q[0::2], q[1::2] = lo, hi
    q = np.where(q >= 8, q - 16, q)[:n]
  else:
    q = np.frombuffer(raw, {"i8": np.int8, "i16": np.int16, "i32": np.int32, "i64": np.int64}[dt])[:n]
  q = q.reshape(shape).astype(np.float64)
  sc, zp = np.asarray(t["scale"], np.float64), np.asarray(t["zp"], np.float64)
  if len(sc) > 1:
    bshape = [1] * len(shape)
    bshape[t["qd"]] = -1
    sc, zp = sc.reshape(bshape), zp.reshape(bshape)
  return ((q - zp) * sc).astype(np.float32)


def tensor_data(m, tensor):
  return m.buffers[tensor.buffer].data


def reference_model(in_bytes, out_bytes, problems=None):
  """The input model with every rewritten constant replaced by its dequantised value."""
  from tensorflow.lite.tools import flatbuffer_utils
  m = project.read(in_bytes)
  po = project.project(out_bytes)
  pi = project.project(in_bytes)
  changed = 0
  for si, sg in enumerate(m.subgraphs):
    for t, tensor in enumerate(sg.tensors):
      ti, to = pi["subs"][si]["tensors"][t], po["subs"][si]["tensors"][t]
      if pi["bufs"][ti["buf"]]["len"] > 0 and to["dt"] != ti["dt"]:
        raw = project.buffer_bytes(out_bytes, to["buf"])
        val = decode_constant(raw, to)
        # "dequantised constants" are the originals quantised and dequantised: within one step of the original wherever the
        # original is inside the representable range (integer forms only; float16 casting is C05's subject)
        if to["dt"] in ("i4", "i8") and ti["dt"] == "f32" and to["scale"]:
          orig = np.frombuffer(np.asarray(tensor_data(m, tensor), np.uint8).tobytes(), np.float32).reshape(val.shape)
          step = float(np.max(to["scale"]))
          bad = np.abs(val.astype(np.float64) - orig.astype(np.float64)) > step * 1.001 + 1e-6
          if bad.any() and problems is not None:
            problems.append(("dequantised-constant", "constant %s decodes under the parameters the output carries to %.5g where the original is %.5g (step %.5g)" %
                             (tensor.name.decode(), float(val[bad][0]), float(orig[bad][0]), step)))
        m.buffers[tensor.buffer].data = np.frombuffer(val.astype(np.float32).tobytes(), np.uint8)
        changed += 1
  return bytes(flatbuffer_utils.convert_object_to_bytearray(m)), changed


def run(model, feeds, ref_kernels=False):
  from ai_edge_litert import interpreter as tfl
  it = tfl.Interpreter(model_content=bytes(model), experimental_op_resolver_type=tfl.OpResolverType.BUILTIN_REF if ref_kernels
                       else tfl.OpResolverType.BUILTIN_WITHOUT_DEFAULT_DELEGATES)
  it.allocate_tensors()
  for d in it.get_input_details():
    it.set_tensor(d["index"], feeds[d["name"]])
  it.invoke()
  return {d["name"]: np.array(it.get_tensor(d["index"])) for d in it.get_output_details()}


_W = {}


def _winit():
  common.setup_env()
  from absl import logging as alog
  alog.set_verbosity(alog.ERROR)


def drq_bound(scn, info, si, oi, ref_bytes, x_by_name):
  """Analytic bound of the hybrid kernel's dynamic 8-bit input quantisation for one operator fed by a graph input."""
  o = scn["subs"][si]["ops"][oi]
  code = info["codes"][si][oi]
  m = project.read(ref_bytes)
  sg = m.subgraphs[si]
  a = o["ins"][2] if o["kind"] == "TCONV" else o["ins"][0]
  wt = sg.tensors[o["ins"][1]]
  w = np.frombuffer(np.asarray(m.buffers[wt.buffer].data, np.uint8).tobytes(), np.float32).reshape(wt.shape)
  x = x_by_name[sg.tensors[a].name.decode()]
  if code == "FULLY_CONNECTED":
    rows = x.reshape(-1, x.shape[-1])
    delta = np.abs(rows).max(axis=1) / 127.0                 # per-row symmetric scale
    return float((np.abs(w).sum(axis=1)[None, :] * delta[:, None] / 2).max())
  delta = float(np.abs(x).max()) / 127.0                     # per-batch scale
  if code == "BATCH_MATMUL":
    return float(np.abs(w).sum(axis=-2).max() * delta / 2)
  return float(np.abs(w).reshape(w.shape[0], -1).sum(axis=1).max() * delta / 2) if code != "DEPTHWISE_CONV_2D" else float(np.abs(w).sum(axis=(0, 1, 2)).max() * delta / 2)


def _task(item):
  scn, seed, dump = item
  out = {"key": synth.scn_key({k: scn[k] for k in ("subs", "mode", "inmode", "outmode")}), "problems": [], "obs": None, "kind": None, "diffs": None}
  # a third of the scenarios get weights whose per-channel slices span equal widths at different offsets (numeric.eqrange_const)
  import zlib
  from harness import numeric
  cfn = numeric.eqrange_const(np.random.default_rng(seed + 17)) if zlib.crc32(out["key"].encode()) % 3 == 0 else None
  out["consts"] = "eqrange" if cfn else "normal"
  try:
    impl = pipeline.run_impl(scn, seed=seed, const_fn=cfn)
  except synth.Unrealisable as e:
    out["unreal"] = str(e)
    return out
  except ValueError as e:
    out["unreal"] = "recipe refused: %s" % str(e)[:80]
    return out
  out["outcome"] = impl["outcome"]
  out["codes"] = impl["info"]["codes"]
  if dump is not None:
    out["diffs"] = pipeline.compare(dump, impl)
  if impl["outcome"] != "done":
    out["kind"] = "raised"        # C06 speaks about the model returned; a rejection (e.g. tied weights under two modes) is C15's
    return out
  info = impl["info"]
  inp, outp = project.project(impl["in_bytes"]), project.project(impl["out_bytes"])
  out["obs"] = pipeline.obs_record(0, scn, inp, outp)
  ref, changed = reference_model(impl["in_bytes"], impl["out_bytes"], out["problems"])
  if out["problems"]:
    return out
  modes = [m["m"] for ms in scn["mode"] for m in ms]
  has_drq = "DRQ" in modes
  out["kind"] = "drq" if has_drq else ("exact" if changed else "untouched")
  rng = np.random.default_rng(seed + 3)
  worst = 0.0
  for k in range(3):
    feeds = {}
    for si, sub in enumerate(scn["subs"][:1]):
      for t in sub["gins"]:
        feeds[info["names"][si][t]] = (np.abs(rng.normal(size=info["shapes"][si][t])) + 0.1).astype(np.float32)
    try:
      a = run(ref, feeds)
      b = run(impl["out_bytes"], feeds)
    except Exception as e:  # pylint: disable=broad-except
      out["problems"].append(("run", "interpreter failed: %s" % str(e)[:150]))
      return out
    if not has_drq:
      for n in a:
        nb = n if n in b else None
        if nb is None:
          # the graph output may have been renamed by an inserted DEQUANTIZE (F7): match by position
          nb = list(b)[list(a).index(n)]
        err = float(np.max(np.abs(a[n] - b[nb]) / (np.abs(a[n]) + 1e-3)))
        worst = max(worst, err)
        if err > 1e-4:
          out["problems"].append(("exact", "output %s differs from the float model with dequantised constants: max rel err %.3g" % (n, err)))
          return out
    else:
      # bound only for dynamic-range operators reading graph inputs and writing graph outputs, all other ops untouched
      sub = scn["subs"][0]
      ok_shape = all(m in ("NOQ", "DRQ") for m in modes) and len(scn["subs"]) == 1
      checked = False
      for oi, o in enumerate(sub["ops"]):
        if scn["mode"][0][oi]["m"] != "DRQ" or o["kind"] == "EMB":
          continue
        a_in = o["ins"][2] if o["kind"] == "TCONV" else o["ins"][0]
        if ok_shape and a_in in sub["gins"] and o["outs"][0] in sub["gouts"]:
          n = info["names"][0][o["outs"][0]]
          bound = drq_bound(scn, info, 0, oi, ref, feeds)
          err = float(np.max(np.abs(a[n] - b[n])))
          checked = True
          worst = max(worst, err / max(bound, 1e-12))
          if err > bound * 1.05 + 1e-5:
            out["problems"].append(("drq-bound", "output %s: error %.4g exceeds the analytic bound %.4g of dynamic 8-bit activation quantisation" % (n, err, bound), oi))
            return out
      out["kind"] = "drq-bounded" if checked else "drq-structural"
  out["worst"] = worst
  return out


def main():
  args = common.parse_args(sys.argv[2:])
  chk = common.Check("C06", "translation_validation", args)
  kf = {f["id"]: f for f in chk.kf.get("findings", []) if "C06" in f["property"]}
  kinds = ["FC", "TCONV", "BMM", "EMB", "EW2", "FIXT", "UNSUP"]
  c = configs.cfg(2, kinds, FLOAT_MODES, [configs.NOQ], [configs.NOQ], share="tensor", layout="both")
  r, dumps = pipecheck.design_run("C06_float", c, ["InvSkeleton", "InvModes", "InvBytes"], timeout=7200)
  if r.error or r.rc not in (0, 12):
    chk.machinery("TLC failed: %s" % r.out[-600:])
    return chk.finish()
  if r.violated:
    chk.note("design-level: %s violated" % r.violated)
  keys = [k for k, d in dumps.items() if any(m["m"] != "NOQ" for ms in d["scn"]["mode"] for m in ms)]
  chosen = common.sample_keep(sorted(keys), 400 if args.tier == "quick" else 30000, args.seed)
  items = [(dumps[k]["scn"], args.seed, dumps[k]) for k in chosen]
  nrand = 60 if args.tier == "quick" else 3000
  rand = []
  for i in range(nrand * 3):
    s = rgen.gen(args.seed * 31337 + i, 2, 6)
    ok = all(m["m"] in ("NOQ", "WO", "F16", "DRQ") for ms in s["mode"] for m in ms)
    s["inmode"] = s["outmode"] = rgen.NOQ
    if not ok:
      s["mode"] = [[m if m["m"] in ("NOQ", "WO", "F16", "DRQ") else rgen.NOQ for m in ms] for ms in s["mode"]]
    if any(m["m"] != "NOQ" for ms in s["mode"] for m in ms):
      rand.append(s)
    if len(rand) >= nrand:
      break
  # a weight read by 9-12 operators, some dynamic-range and some weight-only
  rand += [rgen.gen_fanout(args.seed * 7 + i) for i in range(12 if args.tier == "quick" else 300)]
  rf, rd = pipecheck.design_run_from("C06_random", rand, ["InvSkeleton", "InvModes", "InvBytes"], timeout=7200)
  for s in rand:
    items.append((s, args.seed, rd.get(synth.scn_key({k: s[k] for k in ("subs", "mode", "inmode", "outmode")}))))
  t0 = time.time()
  import concurrent.futures as cf
  results = []
  with cf.ProcessPoolExecutor(max_workers=args.procs, initializer=_winit) as ex:
    for out in ex.map(_task, items, chunksize=4):
      results.append(out)
  obs, idx = [], {}
  kinds_count = {}
  for i, (it, out) in enumerate(zip(items, results)):
    if out.get("unreal") is not None:
      continue
    kinds_count[out.get("kind")] = kinds_count.get(out.get("kind"), 0) + 1
    if out.get("diffs"):
      chk.note("spec-drift %s: %s" % (out["key"], "; ".join(out["diffs"])[:200]))
    for prob in out["problems"]:
      kind, msg = prob[0], prob[1]
      fid = None
      if kind == "drq-bound" and "F15" in kf and len(prob) > 2:
        oi = prob[2]      # known finding F15: exactly the DEPTHWISE_CONV_2D operator under dynamic range with tensor-wise 8-bit weights
        if out["codes"][0][oi] == "DEPTHWISE_CONV_2D" and it[0]["mode"][0][oi]["m"] == "DRQ" and it[0]["mode"][0][oi]["w"] == "w8t":
          fid = "F15"
      # known finding F26: BATCH_MATMUL with a constant FIRST operand under dynamic range - the interpreter refuses the model
      if (fid is None and "F26" in kf and "batch_matmul.cc" in msg and "lhs_data->type" in msg and
          any(o["kind"] == "BMMC" and md["m"] == "DRQ" for sub, modes in zip(it[0]["subs"], it[0]["mode"]) for o, md in zip(sub["ops"], modes))):
        fid = "F26"
      if fid:
        chk.known(fid)
      else:
        chk.violation("%s: %s" % (kind, msg), {"property": "C06", "scenario": it[0], "codes": out.get("codes"), "seed": it[1], "clause": kind})
    if out.get("obs") is not None:
      obs.append(out["obs"])
      idx[i] = len(obs)
  verdicts, ro = pipecheck.observe_with_tlc("C06_observed", obs)
  for i, out in enumerate(results):
    v = verdicts.get(idx.get(i))
    if v is None:
      continue
    bad = [cname for cname in ("inrange", "topo", "skelops", "skelten", "skelio", "skelsig", "skeltyp", "modes", "bytes") if not v[cname]]
    if bad:
      chk.violation("structural half: %s false on the observed output graph" % "/".join(bad),
                    {"property": "C06", "scenario": items[i][0], "codes": out.get("codes"), "seed": items[i][1], "clause": bad, "verdict": v})
  ncmp = sum(1 for o in results if o.get("kind") in ("exact", "drq-bounded"))
  if ncmp == 0:
    chk.machinery("vacuous: no execution compared")
  chk.cov.update({
      "programs": len([o for o in results if o.get("unreal") is None]), "disagreements_checked": ncmp,
      "states": r.distinct + rf.distinct, "transitions": r.generated + rf.generated, "traces_validated_against_impl": len(verdicts),
      "by_kind": kinds_count, "worst_relative_error_or_bound_fraction": max([o.get("worst", 0.0) for o in results] or [0.0]),
      "evaluations": len(results), "distinct_nontrivial": ncmp,
      "rule": "scenarios with weight-only (8/4-bit, symmetric/asymmetric, per-tensor/per-channel), float16 and dynamic-range modes on FC/CONV/DEPTHWISE/"
              "TRANSPOSE_CONV/BATCH_MATMUL/EMBEDDING_LOOKUP, uniform and mixed with untouched ops; 3 random inputs each",
      "samples": [dict(scenario=items[i][0], concrete_ops=results[i].get("codes"), kind=results[i].get("kind")) for i in (0, len(items) - 1)],
      "impl_wall_s": round(time.time() - t0, 1), "exhaustive": False,
  })
  chk.assumptions += ["the equality of two float executions is a LiteRT interpreter observation (BUILTIN_WITHOUT_DEFAULT_DELEGATES); TLC decides the structural half",
                      "weight-only/float16 tolerance 1e-4 relative (+1e-3 absolute floor); dynamic-range bound = sum_j |w_ij| * max|x_row| / 254 (+5%)",
                      "dynamic-range operators not directly between graph input and output are covered structurally only"]
  return chk.finish()


if __name__ == "__main__":
  sys.exit(main())
