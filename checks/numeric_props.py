#!/venv/bin/python
"""C04 / C05 / C15: parameters equal the TFLite-spec reference, stored constants decode within one step,
shared constants are quantised consistently or rejected.

The specification's terminal state of every scenario (Pipeline.tla, enumerated by TLC or run on random graphs through
PipelineFrom.tla) carries a SYMBOLIC parameter term per tensor. The harness resolves each term against on-grid
statistics / constants, TLC (QuantMathExt.tla) computes the exact zero point and scale and judges the bytes the
implementation stored (byte length, nibble order, element-wise decode bound, bias codes); the model's annotations are
compared with TLC's expected values; TLC (Observed.tla) evaluates the relational clauses (ParamRelations, SharedConstOK).
"""
import json
import os
import sys
import time
from fractions import Fraction as F

sys.path.insert(0, os.path.dirname(os.path.dirname(os.path.abspath(__file__))))
from harness import common  # pylint: disable=g-import-not-at-top

common.setup_env()
from harness import configs, numeric, pipecheck, pipeline, project, rgen, synth, tlc  # pylint: disable=g-import-not-at-top
import numpy as np  # pylint: disable=g-import-not-at-top

M = configs.M


def scenario_sources(prop, args):
  """(dumps with symbolic parameter terms, TLC states, transitions)."""
  states = trans = 0
  dumps = {}
  if prop == "C15":
    fams = {
        "shared_tensor_2op": configs.cfg(2, ["FC", "EW2", "CONCAT", "UNSUP2"], [configs.NOQ, M("SRQ", "a8a", "w8c"), M("DRQ", "-", "w8c"), M("WO", "-", "w8c"), M("WO", "-", "w4c"), M("F16")],
                                         [configs.NOQ, M("SRQ", "a8a", "w8c")], [configs.NOQ], share="tensor"),
        "shared_buffer_2sub": configs.cfg(2, ["FC"], [configs.NOQ, M("SRQ", "a8a", "w8c"), M("DRQ", "-", "w8c"), M("WO", "-", "w8c"), M("WO", "-", "w8t"), M("F16")],
                                          [configs.NOQ], [configs.NOQ], share="buffer", max_sub=2),
    }
    # three references to one constant (a tensor read twice and a tied tensor, or three tied tensors): the sharers are compared
    # with the first one, so the third may disagree while the second agrees
    fams["shared_3refs"] = configs.cfg(3, ["FC"], [], [], [configs.NOQ], share="buffer",
                                       km={"FC": [configs.NOQ, M("DRQ", "-", "w8c")] + ([M("WO", "-", "w8c")] if args.tier == "thorough" else [])})
    if args.tier == "thorough":
      fams["shared_3op"] = configs.cfg(3, ["FC", "EW2"], [configs.NOQ, M("SRQ", "a8a", "w8c"), M("DRQ", "-", "w8c"), M("WO", "-", "w8c")],
                                       [configs.NOQ, M("SRQ", "a8a", "w8c")], [configs.NOQ], share="buffer")
  else:
    big = args.tier == "thorough"
    fams = {
        "constraint_2op": configs.cfg(2, ["FC", "EW2", "CONCAT", "SAMEIN0", "FIXT", "FIXSL", "SPLIT"] if big else ["FC", "EW2", "CONCAT", "SAMEIN0", "FIXT"],
                                      [configs.NOQ, M("SRQ", "a8a", "w8c"), M("SRQ", "a16", "w8t"), M("DRQ", "-", "w8c"), M("WO", "-", "w8ca"), M("WO", "-", "w4c"), M("F16")] if big
                                      else [M("SRQ", "a8a", "w8c"), M("SRQ", "a16", "w8t"), M("WO", "-", "w8ca")],
                                      [configs.NOQ, M("SRQ", "a8a", "w8c"), M("SRQ", "a8s", "w8c"), M("SRQ", "a16", "w8c")] if big
                                      else [M("SRQ", "a8a", "w8c"), M("SRQ", "a8s", "w8c"), M("SRQ", "a16", "w8c")],
                                      [configs.NOQ, M("SRQ", "a8a", "w8c")] if big else [configs.NOQ], share="none"),
        # concatenations with several constant operands (each takes the output's parameters and its own data)
        "concat3_1op": configs.cfg(1, ["CONCAT3"], [configs.NOQ], [M("SRQ", "a8a", "w8c"), M("SRQ", "a16", "w8c")], [configs.NOQ, M("SRQ", "a8a", "w8c")], share="none"),
        "weights_1op": configs.cfg(1, ["FC", "TCONV", "BMM", "BMMC", "EMB"], configs.MODES_W_RICH + [M("DRQ", "-", "w4c"), M("WO", "-", "w4c"), M("WO", "-", "w4ta"), M("SRQ", "a8a", "w4c")],
                                   [configs.NOQ], configs.IO_RICH, share="none"),
        # one constant TENSOR (weight or bias) read by two operators: accepted only when both derive the same parameters for it -
        # whatever is returned must still store bytes that decode under the tensor's own parameters
        "shared_tensor_2op": configs.cfg(2, ["FC"], [M("SRQ", "a8a", "w8c"), M("SRQ", "a8a", "w8t"), M("WO", "-", "w8c"), M("WO", "-", "w8t")] + ([M("DRQ", "-", "w8c"), M("WO", "-", "w4c")] if big else []),
                                         [configs.NOQ], [configs.NOQ], share="tensor"),
    }
  for name, c in fams.items():
    r, d = pipecheck.design_run("%s_%s" % (prop, name), c, ["InvParams", "InvBytes"], timeout=7200)
    states += r.distinct
    trans += r.generated
    if r.error or r.rc not in (0, 12):
      raise RuntimeError("TLC failed on %s: %s" % (name, r.out[-500:]))
    if r.violated:
      print("NOTE design-level: %s violated in %s" % (r.violated, name))
    for k, v in d.items():
      v["_fam"] = name
      dumps.setdefault(k, v)
  # random larger graphs through the specification's machine
  nrand = 60 if args.tier == "quick" else 2500
  rand = [rgen.gen(args.seed * 999983 + i, 3, 7, nsub=1 if i % 4 else 2) for i in range(nrand)]
  rf, rd = pipecheck.design_run_from("%s_random" % prop, rand, ["InvParams", "InvBytes"], timeout=7200)
  states += rf.distinct
  trans += rf.generated
  for k, v in rd.items():
    v["_fam"] = "random"
    dumps.setdefault(k, v)
  return dumps, states, trans


def want_w4(scn):
  return any(str(m.get("w", "")).startswith("w4") for ms in scn["mode"] for m in ms)


def policy_ok(scn, codes):
  """Modes the default policy refuses for the chosen concrete operator are skipped (C13 is about the policy)."""
  ok4 = {"SRQ": ("FULLY_CONNECTED", "CONV_2D"), "DRQ": ("FULLY_CONNECTED", "EMBEDDING_LOOKUP"), "WO": ("BATCH_MATMUL", "FULLY_CONNECTED", "EMBEDDING_LOOKUP")}
  for si, ms in enumerate(scn["mode"]):
    for oi, m in enumerate(ms):
      w = str(m.get("w", "-"))
      if w.startswith("w4") and codes[si][oi] not in ok4.get(m["m"], ()):
        return False
      if w.endswith("a") and m["m"] != "WO":
        return False
  return True


def main():
  prop = sys.argv[1]
  args = common.parse_args(sys.argv[2:])
  chk = common.Check(prop, "model_checking", args)
  from absl import logging as alog
  alog.set_verbosity(alog.ERROR)
  try:
    dumps, states, trans = scenario_sources(prop, args)
  except RuntimeError as e:
    chk.machinery(str(e))
    return chk.finish()
  keys = sorted(k for k, d in dumps.items())
  limit = 350 if args.tier == "quick" else 12000
  # prefer scenarios in which something is quantised
  keys = [k for k in keys if any(m["m"] != "NOQ" for ms in dumps[k]["scn"]["mode"] for m in ms)]
  # stratified by scenario family, so that small families (e.g. concatenations of several constants) are never sampled away
  fams = {}
  for k in keys:
    fams.setdefault(dumps[k]["_fam"], []).append(k)
  chosen = []
  for fam, ks in sorted(fams.items()):
    if prop == "C15" and fam != "random":
      # only scenarios in which a constant really is shared, and every (modes of the operators, predicted outcome) combination of
      # them - e.g. "dynamic-range reader first, weight-only reader second, accepted" - gets its share of the budget
      strata = {}
      for k in ks:
        sc = dumps[k]["scn"]
        groups = [g for sub in sc["subs"] for g in sub.get("tbuf", []) if g]
        shared_t = any(sum(1 for o in sub["ops"] if t in o["ins"]) >= 2 for sub in sc["subs"] for t, r in enumerate(sub["trole"]) if r in ("w", "c", "b"))
        if not shared_t and len(groups) == len(set(groups)):
          continue
        strata.setdefault((tuple(m["m"] for ms in sc["mode"] for m in ms), dumps[k].get("pc")), []).append(k)
      per = max(2, -(-max(80, limit // len(fams)) // max(1, len(strata))))
      for _, sk in sorted(strata.items()):
        chosen += common.sample_keep(sk, per, args.seed)
      continue
    chosen += common.sample_keep(ks, max(80, limit // len(fams)), args.seed)
  t0 = time.time()
  rng = np.random.default_rng(args.seed)
  runs = []
  drifted = []
  batch = numeric.Batch()
  outcomes = {}
  # the same scenarios again with a tiny output channel (weights ~2^-14, bias ~2^-19) under small statistics: the bias scale
  # s_in * s_w is then below 1e-9 and the weight range at the library's 1e-4 floor (QuantMath!MinBound)
  tiny = [k for k in fams.get("weights_1op", []) if dumps[k]["scn"]["mode"][0][0]["m"] == "SRQ" and dumps[k]["scn"]["mode"][0][0]["a"] in ("a8a", "a8s")
          and dumps[k]["scn"]["subs"][0]["ops"][0]["kind"] in ("FC", "TCONV")]
  # float16 casting of weights at and beyond the edge of the float16 range (65504 is the largest finite value, 65520 and above
  # round to infinity)
  huge = [k for k in fams.get("weights_1op", []) if dumps[k]["scn"]["mode"][0][0]["m"] == "F16"]
  jobs = [(k, "grid") for k in chosen] + [(k, "tiny") for k in common.sample_keep(tiny, 40 if args.tier == "quick" else 10**6, args.seed)]
  # per-channel slices of equal width at different offsets (equal scales, different zero points under asymmetric weights)
  eqr = [k for k in chosen if any(m.get("w", "-") in ("w8ca", "w4ca", "w8c", "w4c") for ms in dumps[k]["scn"]["mode"] for m in ms)]
  jobs += [(k, "eqrange") for k in common.sample_keep(eqr, 120 if args.tier == "quick" else 6000, args.seed)]
  if prop == "C05":
    jobs += [(k, "huge") for k in common.sample_keep(huge, 30 if args.tier == "quick" else 10**6, args.seed)]
  if prop == "C04":
    # 16-bit activations of small magnitude (statistics / 4096): scales around 1e-8, so that the parameters of different tensors
    # differ by less than 1e-8 in absolute terms - they are different parameters all the same
    small16 = [k for k in fams.get("constraint_2op", []) if any(m["a"] == "a16" for ms in dumps[k]["scn"]["mode"] for m in ms)
               and not any(r == "c" for sub in dumps[k]["scn"]["subs"] for r in sub["trole"])]
    jobs += [(k, "small16") for k in common.sample_keep(small16, 80 if args.tier == "quick" else 10**6, args.seed)]
  for k, variant in jobs:
    d = dumps[k]
    scn = d["scn"]
    rng_k = np.random.default_rng(args.seed + len(runs))
    try:
      model, info = synth.build(scn, args.seed, const_fn={"grid": numeric.grid_const, "tiny": numeric.tiny_const, "huge": numeric.huge_const, "small16": numeric.grid_const, "eqrange": numeric.eqrange_const}[variant](rng_k))
    except synth.Unrealisable:
      continue
    if not policy_ok(scn, info["codes"]):
      continue
    try:
      impl = pipeline.run_impl(scn, seed=args.seed, model=model, info=info, stats=numeric.small_stats(scn) if variant == "tiny" else numeric.small_stats(scn, 4096) if variant == "small16" else "inject")
    except ValueError as e:
      outcomes["recipe-refused"] = outcomes.get("recipe-refused", 0) + 1
      continue
    # on-grid constants make distinct tensors' parameters coincide numerically: class differences are expected here
    diffs = [x for x in pipeline.compare(d, impl) if not x.startswith("parameter classes")]
    if diffs:
      chk.note("spec-drift scenario %s: %s" % (k, "; ".join(diffs)[:200]))
    outcomes[impl["outcome"] + ":" + impl["why"]] = outcomes.get(impl["outcome"] + ":" + impl["why"], 0) + 1
    if impl["outcome"] != "done":
      continue
    if diffs:
      # the implementation left the specification's predicted path (e.g. it returned where a rejection was predicted): the
      # relational predicates are evaluated on what it returned, and (C04) the ORIGINAL tensors - whose ids are stable - are still
      # compared with the parameters their own statistics / data give (the specification's term for them)
      drifted.append({"key": k, "scn": scn, "codes": info["codes"], "impl": impl})
      if prop != "C04" or d.get("pc") != "done":
        continue
    ctx = numeric.Ctx(scn, impl)
    run = {"key": k, "scn": scn, "codes": info["codes"], "ctx": ctx, "dump": d, "tensors": [], "impl": impl, "variant": variant}
    outcomes["variant:" + variant] = outcomes.get("variant:" + variant, 0) + 1
    for si in range(len(scn["subs"])):
      for t, term in enumerate(d["R"][si]["par"]):
        if diffs and (t >= len(scn["subs"][si]["trole"]) or not ctx.out_proj["subs"][si]["tensors"][t]["scale"] or term == ["none"]):
          continue      # drifted run: only original tensors that both sides quantise
        # a float16 constant carries no annotation (par = none): the term its data was written under is in `data`
        dterms = d["R"][si].get("data", [])
        if term == ["none"] and t < len(dterms) and dterms[t][0] == "F16":
          term = dterms[t]
        # the term the data was written under (constants) is the last write to the buffer; annotation term otherwise
        exp = numeric.expected(term, ctx)
        roles = scn["subs"][si]["trole"]
        if exp["kind"] in ("uniform", "fixed") and "data" not in exp and t < len(roles) and roles[t] in ("c", "w"):
          # a constant quantised with ANOTHER tensor's parameters (operand of a same-as-output-scale op): its annotation term is
          # that tensor's, but its bytes must still decode to its own original values
          exp = dict(exp, data=ctx.const_data([si + 1, t])[0])
        ent = {"si": si, "t": t, "term": term, "exp": exp, "zs": []}
        if exp["kind"] == "uniform":
          ent["zs"] = exp["zs"] = [batch.zs(mn, mx, exp["bits"], exp["sym"]) for mn, mx in exp["ranges"]]
        elif exp["kind"] == "bias":
          for part in ("pin", "pw"):
            e2 = exp[part]
            if e2["kind"] == "uniform":
              e2["zs"] = [batch.zs(mn, mx, e2["bits"], e2["sym"]) for mn, mx in e2["ranges"]]
        run["tensors"].append(ent)
    runs.append(run)
  # ---- C15: constants of DIFFERENT subgraphs that share one buffer AND one name (a tied table exported under one name): the
  # quantizer's bookkeeping is keyed by tensor name, so such a model is either rejected or every referencing tensor must agree
  # with the stored bytes - judged by the predicates on whatever is returned (no prediction: the specification's names are unique)
  nsame = 0
  if prop == "C15":
    cross = [k for k in fams.get("shared_buffer_2sub", []) if len(dumps[k]["scn"]["subs"]) == 2 and
             set(g for g in dumps[k]["scn"]["subs"][0].get("tbuf", []) if g) & set(g for g in dumps[k]["scn"]["subs"][1].get("tbuf", []) if g)]
    for k in common.sample_keep(cross, 60 if args.tier == "quick" else 2000, args.seed):
      scn = dumps[k]["scn"]
      nsub = len(scn["subs"])
      nf = lambda si, t, scn=scn, nsub=nsub: ("tied_g%d" % scn["subs"][si]["tbuf"][t]) if scn["subs"][si].get("tbuf", [0] * (t + 1))[t] else synth.tname(si, t, nsub)
      try:
        model, info = synth.build(scn, args.seed, const_fn=numeric.grid_const(np.random.default_rng(args.seed + nsame)), name_fn=nf)
        if not policy_ok(scn, info["codes"]):
          continue
        impl = pipeline.run_impl(scn, seed=args.seed, model=model, info=info)
      except (synth.Unrealisable, ValueError):
        continue
      nsame += 1
      outcomes["same-name:" + impl["outcome"]] = outcomes.get("same-name:" + impl["outcome"], 0) + 1
      if impl["outcome"] == "done":
        drifted.append({"key": k + "/same-name", "scn": scn, "codes": info["codes"], "impl": impl})
  out1, r1 = batch.run("%s_zs" % prop)
  if r1 is not None and (r1.error or len(out1) != len(batch.vecs)):
    chk.machinery("QuantMathExt (zs) failed: %d of %d outputs: %s" % (len(out1), len(batch.vecs), r1.out[-500:]))
    return chk.finish()

  def ref_params(exp):
    """[(zp, scale Fraction, tie)] per channel from TLC's outputs."""
    if exp["kind"] == "fixed":
      return [(exp["zp"], exp["scale"], False)]
    return [(out1[i]["zp"], F(out1[i]["scale"][0], out1[i]["scale"][1]), out1[i]["tie"]) for i in exp["zs"]]

  # ---------------- C04: annotations equal the reference; phase 2 vectors for the stored bytes
  b2 = numeric.Batch()
  ntens = nconst = 0
  for run in runs:
    ctx = run["ctx"]
    rep = {"property": prop, "scenario": run["scn"], "codes": run["codes"], "seed": args.seed}
    for ent in run["tensors"]:
      tp = ctx.out_proj["subs"][ent["si"]]["tensors"][ent["t"]]
      exp = ent["exp"]
      where = "%s (%s)" % (tp["name"], ent["term"][0])
      if exp["kind"] in ("none", "f16"):
        if prop == "C04" and tp["scale"]:
          chk.violation("tensor %s carries quantization parameters although none are expected" % where, dict(rep, clause="unexpected-params", tensor=tp["name"]))
        if exp["kind"] == "f16" and prop in ("C05", "C15"):
          raw = ctx.out_proj and project.buffer_bytes(run["impl"]["out_bytes"], tp["buf"])
          with np.errstate(over="ignore"):
            want = exp["data"].astype(np.float16).tobytes()    # IEEE round-to-nearest-even (identity on the grid, +-inf from 65520 on)
          if raw != want or tp["dt"] != "f16":
            chk.violation("float16 constant %s does not hold the round-to-nearest float16 of the original" % where, dict(rep, clause="fp16", tensor=tp["name"]))
          nconst += 1
        continue
      ntens += 1
      if exp["kind"] == "bias":
        pin, pw = ref_params(exp["pin"]), ref_params(exp["pw"])
        ref = [(0, pin[0][1] * w[1], False) for w in pw]
        bits, sym, qd = exp["bits"], True, (0 if len(ref) > 1 else None)
      else:
        ref = ref_params(exp)
        bits, sym, qd = exp["bits"], exp.get("sym", False), exp.get("qd")
      if prop == "C04":
        want_dt = {4: "i4", 8: "i8", 16: "i16", 32: "i32", 64: "i64"}[bits]
        if tp["dt"] != want_dt:
          chk.violation("tensor %s has dtype %s, expected %s" % (where, tp["dt"], want_dt), dict(rep, clause="dtype", tensor=tp["name"]))
        if len(tp["scale"]) != len(tp["zp"]) or len(tp["scale"]) != len(ref):
          chk.violation("tensor %s has %d scales / %d zero points, expected %d" % (where, len(tp["scale"]), len(tp["zp"]), len(ref)),
                        dict(rep, clause="lengths", tensor=tp["name"]))
          continue
        if len(ref) > 1 and tp["qd"] != qd:
          chk.violation("per-channel tensor %s quantised along dimension %d, the kernel expects %s" % (where, tp["qd"], qd), dict(rep, clause="qdim", tensor=tp["name"]))
        qmin, qmax = -(2 ** (bits - 1)), 2 ** (bits - 1) - 1
        for c, ((zp, sc, tie), gs, gz) in enumerate(zip(ref, tp["scale"], tp["zp"])):
          rel = abs(F(float(gs)) - sc) / sc
          if not (np.isfinite(gs) and gs > 0) or rel > F(1, 10**6):
            chk.violation("scale of %s[%d] = %r, reference %s (rel. error %.2e)" % (where, c, gs, sc, float(rel)), dict(rep, clause="scale", tensor=tp["name"]))
            break
          if not (gz == zp or (tie and abs(gz - zp) == 1)) or not qmin <= gz <= qmax or (sym and gz != 0 and exp["kind"] != "fixed"):
            chk.violation("zero point of %s[%d] = %d, reference %d" % (where, c, gz, zp), dict(rep, clause="zero-point", tensor=tp["name"]))
            break
      # ---- stored bytes of rewritten constants (C05 / C15)
      if "data" in exp and prop in ("C05", "C15") and run["variant"] == "tiny" and exp["kind"] != "bias":
        pass      # weights of the tiny variant: 2^-20 grid against a 1/1270000 scale overflows TLC's 32-bit rationals; decoded in the grid variant
      elif "data" in exp and prop in ("C05", "C15"):
        raw = project.buffer_bytes(run["impl"]["out_bytes"], tp["buf"])
        data = exp["data"]
        n = int(data.size)
        nconst += 1
        if exp["kind"] == "bias":
          codes = numeric.stored_codes(tp, raw, bits)
          lim = 2 ** (bits - 1) - 1
          ch = [1] * n if len(ref) == 1 else [e % len(ref) + 1 for e in range(n)]
          if len(codes) != n:
            chk.violation("bias %s stores %d bytes for %d elements of %d bits" % (where, len(raw), n, bits), dict(rep, clause="length", tensor=tp["name"]))
            continue
          ent["vec"] = b2.add({"kind": "bias", "b": [numeric.pair(numeric.frac(x)) for x in data.flatten()], "sin": numeric.pair(pin[0][1]),
                               "sw": [numeric.pair(w[1]) for w in pw], "ch": ch, "codes": [numeric.big(int(c)) for c in codes],
                               "sat": [bool(abs(int(c)) >= lim) for c in codes]})
        else:
          qd_ = exp.get("qd")
          if qd_ is None:
            ch = [1] * n
          else:
            ch = (np.indices(data.shape)[qd_].flatten() + 1).tolist()
          vec = {"kind": "dec", "bits": bits, "sym": bool(sym), "w": [numeric.pair(numeric.frac(x)) for x in data.flatten()],
                 "scale": [numeric.pair(p[1]) for p in ref],
                 # the tensor's OWN zero points (C04 has compared them with the reference; on an exact tie either neighbour is right)
                 # a tensor carrying ONE zero point where the reference has one per channel decodes every channel under that one
                 "zp": [int(z) for z in tp["zp"]] if len(tp["zp"]) == len(ref) else [int(tp["zp"][0])] * len(ref) if len(tp["zp"]) == 1 else [int(p[0]) for p in ref],
                 "ch": [int(c) for c in ch],
                 "nbytes": len(raw), "bytes": list(raw) if bits == 4 else [], "codes": [] if bits == 4 else [int(c) for c in numeric.stored_codes(tp, raw, bits)][:n]}
          if bits != 4 and len(vec["codes"]) != n:
            chk.violation("constant %s stores %d bytes for %d elements of %d bits" % (where, len(raw), n, bits), dict(rep, clause="length", tensor=tp["name"]))
            continue
          ent["vec"] = b2.add(vec)
  # ---- runs that left the predicted path (e.g. returned where a rejection was predicted): there is no reference term, but the
  # property speaks of the tensor's OWN parameters - every rewritten original constant is decoded under the parameters the output
  # carries (one step allowed: symmetry is not known here), biases against round(b / own scale)
  own = []
  nown_skipped = 0
  for dr in (drifted if prop in ("C05", "C15") else []):
    ctx = numeric.Ctx(dr["scn"], dr["impl"])
    for si, sub in enumerate(dr["scn"]["subs"]):
      for t, role in enumerate(sub["trole"]):
        tp = ctx.out_proj["subs"][si]["tensors"][t] if t < len(ctx.out_proj["subs"][si]["tensors"]) else None
        bits = {"i4": 4, "i8": 8, "i16": 16, "i32": 32, "i64": 64}.get(tp["dt"]) if tp else None
        if role not in ("c", "w", "b") or not bits or not tp["scale"] or len(tp["scale"]) != len(tp["zp"]):
          continue
        data = ctx.const_data([si + 1, t])[0]
        n = int(data.size)
        raw = project.buffer_bytes(dr["impl"]["out_bytes"], tp["buf"])
        nch = len(tp["scale"])
        qd_ = tp["qd"] if nch > 1 else None
        if qd_ is not None and (qd_ >= data.ndim or data.shape[qd_] != nch):
          chk.violation("constant %s: %d scales along dimension %d of shape %s" % (tp["name"], nch, qd_, list(data.shape)),
                        {"property": prop, "scenario": dr["scn"], "codes": dr["codes"], "seed": args.seed, "clause": "own-params-shape", "tensor": tp["name"]})
          continue
        ch = [1] * n if qd_ is None else (np.indices(data.shape)[qd_].flatten() + 1).tolist()
        if role == "b" and bits >= 32:
          # own scale as an exact binary fraction m * 2^e, split over the two factors the law multiplies (each below 2^31)
          sw, okb = [], True
          for gs in tp["scale"]:
            fr = F(float(gs))
            num, den = fr.numerator, fr.denominator
            k = den.bit_length() - 1
            if num >= 2 ** 31 or k > 60 or den != 2 ** k:
              okb = False
              break
            sw.append((num, k))
          if not okb or len(numeric.stored_codes(tp, raw, bits)) != n:
            nown_skipped += 1
            continue
          k1 = min(30, min(k for _, k in sw))
          codes = numeric.stored_codes(tp, raw, bits)
          lim = 2 ** (bits - 1) - 1
          vid = b2.add({"kind": "bias", "b": [numeric.pair(numeric.frac(x)) for x in data.flatten()], "sin": [1, 2 ** k1],
                        "sw": [[num, 2 ** (k - k1)] for num, k in sw], "ch": [int(c) for c in ch], "codes": [numeric.big(int(c)) for c in codes],
                        "sat": [bool(abs(int(c)) >= lim) for c in codes]})
        elif bits <= 16:
          scs = [F(float(gs)).limit_denominator(1 << 14) for gs in tp["scale"]]
          if any(sc <= 0 or abs(sc - F(float(gs))) > F(float(gs)) / 10**6 for sc, gs in zip(scs, tp["scale"])):
            nown_skipped += 1
            continue
          vec = {"kind": "dec", "bits": bits, "sym": False, "w": [numeric.pair(numeric.frac(x)) for x in data.flatten()],
                 "scale": [numeric.pair(sc) for sc in scs], "zp": [int(z) for z in tp["zp"]], "ch": [int(c) for c in ch],
                 "nbytes": len(raw), "bytes": list(raw) if bits == 4 else [], "codes": [] if bits == 4 else [int(c) for c in numeric.stored_codes(tp, raw, bits)][:n]}
          if bits != 4 and len(vec["codes"]) != n:
            chk.violation("constant %s stores %d bytes for %d elements of %d bits" % (tp["name"], len(raw), n, bits),
                          {"property": prop, "scenario": dr["scn"], "codes": dr["codes"], "seed": args.seed, "clause": "length", "tensor": tp["name"]})
            continue
          vid = b2.add(vec)
        else:
          continue
        own.append((vid, dr, tp["name"]))
  out2, r2 = b2.run("%s_dec" % prop)
  for vid, dr, name in own:
    o = out2.get(vid)
    if o is not None and (not o["elems"] or (o["kind"] == "dec" and not o["lenok"])):
      chk.violation("constant %s of scenario %s (which left the specification's predicted path): element %d of the stored bytes does not decode under "
                    "the tensor's own parameters to within one step of the original" % (name, dr["key"], o["firstbad"]),
                    {"property": prop, "scenario": dr["scn"], "codes": dr["codes"], "seed": args.seed, "clause": "decode-own-params", "tensor": name, "element": o["firstbad"]})
  if r2 is not None and (r2.error or len(out2) != len(b2.vecs)):
    chk.machinery("QuantMathExt (dec) failed: %d of %d outputs: %s" % (len(out2), len(b2.vecs), r2.out[-500:]))
  for run in runs:
    rep = {"property": prop, "scenario": run["scn"], "codes": run["codes"], "seed": args.seed}
    for ent in run["tensors"]:
      if "vec" not in ent or ent["vec"] not in out2:
        continue
      o = out2[ent["vec"]]
      name = run["ctx"].out_proj["subs"][ent["si"]]["tensors"][ent["t"]]["name"]
      if o["kind"] == "dec" and not o["lenok"]:
        chk.violation("constant %s: stored byte length / int4 padding does not match shape and dtype" % name, dict(rep, clause="length", tensor=name))
      if not o["elems"]:
        chk.violation("constant %s (%s): element %d of the stored bytes does not decode to within the bound of the original" %
                      (name, ent["term"][0], o["firstbad"]), dict(rep, clause="decode", tensor=name, element=o["firstbad"]))
  # ---------------- relational clauses on the observed states (TLC, Observed.tla)
  obs, idx = [], {}
  for i, run in enumerate(runs):
    o = pipeline.obs_record(0, run["scn"], run["ctx"].in_proj, run["ctx"].out_proj)
    obs.append(o)
    idx[i] = len(obs)
  for j, dr in enumerate(drifted):
    o = pipeline.obs_record(0, dr["scn"], project.project(dr["impl"]["in_bytes"]), project.project(dr["impl"]["out_bytes"]))
    obs.append(o)
    idx[len(runs) + j] = len(obs)
  verdicts, ro = pipecheck.observe_with_tlc("%s_observed" % prop, obs)
  clause = {"C04": "params", "C05": "bytes", "C15": "bytes"}[prop]
  # C15 "quantized consistently": besides bytes <-> annotation, every sharer's consumer must see the dtype its mode selects
  extra_clauses = ["modes"] if prop == "C15" else []
  for j, dr in enumerate(drifted):
    v = verdicts.get(idx[len(runs) + j])
    if v is not None and (not v[clause] or not v["inrange"] or not all(v[c] for c in extra_clauses)):
      chk.violation("%s false on the observed output of scenario %s (which also left the specification's predicted path)" % ("/".join([clause] + extra_clauses), dr["key"]),
                    {"property": prop, "scenario": dr["scn"], "codes": dr["codes"], "seed": args.seed, "clause": clause, "verdict": v})
  for i, run in enumerate(runs):
    v = verdicts.get(idx[i])
    if v is None:
      chk.machinery("no TLC verdict for %s" % run["key"])
    elif not v[clause] or not v["inrange"] or not all(v[c] for c in extra_clauses):
      chk.violation("%s false on the observed output of scenario %s" % ("/".join([clause] + extra_clauses), run["key"]),
                    {"property": prop, "scenario": run["scn"], "codes": run["codes"], "seed": args.seed, "clause": clause, "verdict": v})
  if not runs:
    chk.machinery("vacuous: no scenario returned a model")
  chk.cov.update({
      "states": states + (r1.distinct if r1 else 0) + (r2.distinct if r2 else 0), "transitions": trans,
      "traces_validated_against_impl": len(runs), "quantized_tensors_compared": ntens, "rewritten_constants_decoded": nconst,
      "reference_vectors_zs": len(batch.vecs), "own_parameter_decodes_on_unpredicted_runs": len(own), "own_parameter_decodes_skipped": nown_skipped, "decode_vectors": len(b2.vecs), "outcomes": outcomes,
      "evaluations": len(runs), "distinct_nontrivial": len(runs),
      "rule": "scenario families: " + ("constants shared by tensor / by buffer within and across subgraphs x every assignment of modes to the sharers"
                                       if prop == "C15" else
                                       "constraint family (same-as-input, split, concatenation, fixed-range, fc+bias, elementwise chains) x static/dynamic/weight-only/float16 "
                                       "x 4/8-bit, symmetric/asymmetric, per-tensor/per-channel weights") +
              " enumerated by TLC + random 3-7 op graphs; statistics and constants on a dyadic grid so that TLC's rationals are exact",
      "samples": [dict(scenario=r["scn"], concrete_ops=r["codes"]) for r in runs[:2]], "impl_wall_s": round(time.time() - t0, 1),
      "exhaustive": False,
  })
  chk.assumptions += ["constants k/8 and statistics on a dyadic grid; scale tolerance 1e-6 relative; zero point exact (either neighbour on an exact tie detected by TLC)",
                      "decode bound step/2 (symmetric) or step (asymmetric) + step/64 slack for float rounding of near-ties",
                      "per-channel min/max of constants computed with numpy (trusted)"]
  return chk.finish()


if __name__ == "__main__":
  sys.exit(main())
