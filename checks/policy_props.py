#!/venv/bin/python
"""C13: every accepted (operator, config) pair is runtime-sound; unsupported ones are refused.

The full lattice  23 operator selectors (+ '*')  x  activation {none, 8/16 bit x symmetric/asymmetric}  x  weight
{4, 8, 16 bit} x {symmetric, asymmetric} x {tensor-, channel-wise} x {INT, FLOAT}  x  compute precision  x
explicit_dequantize  x  2 algorithms  is enumerated against the real API. For every point the protocol events
(construct / update / quantize / run) are recorded and validated by TLC against spec/Policy.tla, which also evaluates
the C13 invariants on every observed trace. "Runtime-sound" is an interpreter observation on a single-operator model.
"""
import itertools
import json
import os
import sys
import time

sys.path.insert(0, os.path.dirname(os.path.dirname(os.path.abspath(__file__))))
from harness import common  # pylint: disable=g-import-not-at-top

common.setup_env()
from harness import project, synth, tlc  # pylint: disable=g-import-not-at-top
import numpy as np  # pylint: disable=g-import-not-at-top

NOQ = {"m": "NOQ", "a": "-", "w": "-"}
SINGLE = {
    "FULLY_CONNECTED": ("FC", [0, 1, 2], ["act", "w", "b", "act"]), "CONV_2D": ("FC", [0, 1, 2], ["act", "w", "b", "act"]),
    "DEPTHWISE_CONV_2D": ("FC", [0, 1, 2], ["act", "w", "b", "act"]), "CONV_2D_TRANSPOSE": ("TCONV", [1, 2, 0, 3], ["act", "aux", "w", "b", "act"]),
    "BATCH_MATMUL": ("BMM", [0, 1], ["act", "w", "act"]), "EMBEDDING_LOOKUP": ("EMB", [0, 1], ["aux", "w", "act"]),
    "ADD": ("EW2", [0, 1], ["act", "c", "act"]), "SUB": ("EW2", [0, 1], ["act", "c", "act"]), "MUL": ("EW2", [0, 1], ["act", "c", "act"]),
    "GELU": ("EW1", [0], ["act", "act"]), "RSQRT": ("EW1", [0], ["act", "act"]), "MEAN": ("EW1A", [0, 1], ["act", "aux", "act"]),
    "AVERAGE_POOL_2D": ("SAMEIN0", [0], ["act", "act"]), "RESHAPE": ("SAMEIN1", [0, 1], ["act", "aux", "act"]),
    "TRANSPOSE": ("SAMEIN1", [0, 1], ["act", "aux", "act"]), "STRIDED_SLICE": ("SAMEIN3", [0, 1, 2, 3], ["act", "aux", "aux", "aux", "act"]),
    "SPLIT": ("SPLIT", [1, 0], ["act", "aux", "act", "act"]), "CONCATENATION": ("CONCAT", [0, 0], ["act", "act"]),
    "SOFTMAX": ("FIXSL", [0], ["act", "act"]), "LOGISTIC": ("FIXSL", [0], ["act", "act"]), "TANH": ("FIXT", [0], ["act", "act"]),
}


def single_model(code, seed=0):
  kind, ins, roles = SINGLE[code]
  nout = 2 if kind == "SPLIT" else 1
  nt = len(roles) + (1 if kind == "SPLIT" and False else 0)
  outs = list(range(len(roles) - nout, len(roles)))
  if kind == "EMB":
    # the embedding has no float input: add a GELU branch so that the model has a float input
    sub = {"ops": [{"kind": "EMB", "ins": [1, 2], "outs": [3]}, {"kind": "EW1", "ins": [0], "outs": [4]}],
           "trole": ["act", "aux", "w", "act", "act"], "gins": [0], "gouts": [3, 4]}
    scn = {"subs": [sub], "mode": [[NOQ, NOQ]], "inmode": NOQ, "outmode": NOQ, "codes": [[code, "GELU"]]}
  else:
    sub = {"ops": [{"kind": kind, "ins": ins, "outs": outs}], "trole": roles, "gins": [0], "gouts": outs}
    scn = {"subs": [sub], "mode": [[NOQ]], "inmode": NOQ, "outmode": NOQ, "codes": [[code]]}
  model, info = synth.build(scn, seed)
  return scn, model, info


def lattice(Q):
  # activation configs: none, 8/16 bit x symmetric/asymmetric (per tensor), and the same with CHANNELWISE granularity (a further
  # axis of TensorQuantizationConfig: no kernel has per-channel activations, every such config must be refused)
  acts = [None] + [Q.TensorQuantizationConfig(b, s) for b in (8, 16) for s in (True, False)] + \
         [Q.TensorQuantizationConfig(b, s, Q.QuantGranularity.CHANNELWISE) for b in (8, 16) for s in (True, False)]
  for a, wb, ws, wg, wd, cp, ed in itertools.product(acts, (4, 8, 16), (True, False), (Q.QuantGranularity.TENSORWISE, Q.QuantGranularity.CHANNELWISE),
                                                     (Q.TensorDataType.INT, Q.TensorDataType.FLOAT), (Q.ComputePrecision.INTEGER, Q.ComputePrecision.FLOAT), (True, False)):
    yield dict(a=a, wb=wb, ws=ws, wg=wg, wd=wd, cp=cp, ed=ed)


def pkey(p):
  a = p["a"]
  return "a=%s w%d%s%s%s %s ed=%d" % ("none" if a is None else "%d%s%s" % (a.num_bits, "s" if a.symmetric else "a", "C" if a.granularity.value == "CHANNELWISE" else ""), p["wb"], "s" if p["ws"] else "a",
                                       "C" if p["wg"].value == "CHANNELWISE" else "T", "i" if p["wd"].value == "INT" else "f", p["cp"].value[:3], p["ed"])


def run_model(mb, feeds):
  from ai_edge_litert import interpreter as tfl
  it = tfl.Interpreter(model_content=bytes(mb), experimental_op_resolver_type=tfl.OpResolverType.BUILTIN_WITHOUT_DEFAULT_DELEGATES)
  it.allocate_tensors()
  run = it.get_signature_runner("serving_default")
  f2 = {}
  for name, d in run.get_input_details().items():
    v = feeds[name]
    qp = d["quantization_parameters"]
    if len(qp["scales"]):
      info = np.iinfo(d["dtype"])
      v = np.clip(np.rint(v / qp["scales"][0] + qp["zero_points"][0]), info.min, info.max).astype(d["dtype"])
    f2[name] = v
  res = run(**f2)
  outs = {}
  for name, d in run.get_output_details().items():
    v = res[name]
    qp = d["quantization_parameters"]
    outs[name] = (v.astype(np.float64) - qp["zero_points"][0]) * qp["scales"][0] if len(qp["scales"]) else v.astype(np.float64)
  return outs


def inputs(seed=0, n=6):
  """The inputs the model is calibrated on AND evaluated on (C13 refers to the C06/C07 bounds: calibrated inputs)."""
  rng = np.random.default_rng(seed + 99)
  return [(np.abs(rng.normal(size=(1, 2, 2, 4))) + 0.1).astype(np.float32) for _ in range(n)]


def soundness(model, qmodel, xs):
  """(prepared?, sane?, worst relative RMS error)."""
  worst = 0.0
  for x in xs:
    try:
      fo = run_model(model, {"x0": x})
    except Exception as e:  # pylint: disable=broad-except
      return True, True, 0.0, "float model fails: %s" % str(e)[:60]
    try:
      qo = run_model(qmodel, {"x0": x})
    except Exception as e:  # pylint: disable=broad-except
      return False, False, 1e9, str(e)[:120]
    for n in fo:
      a, b = fo[n].flatten(), qo[n].flatten()
      if not np.all(np.isfinite(b)):
        return True, False, 1e9, "non-finite output"
      rngf = float(a.max() - a.min()) or float(np.abs(a).max()) or 1.0
      worst = max(worst, float(np.sqrt(np.mean((a - b) ** 2)) / rngf))
      if a.std() > 1e-3 and b.std() < 1e-9:
        return True, False, 1e9, "constant output"
  return True, worst < 0.12, worst, ""


def registry_phase(chk, args):
  """Registry.tla: every reachable registry state (register_quantized_op / check function / policy, per algorithm key) is
  replayed on a fresh AlgorithmManagerApi and the whole query table compared; AcceptIffLastRegistered is checked by TLC."""
  from ai_edge_quantizer import algorithm_manager_api as api, qtyping as Q
  algs, ops, funcs, checks, pols, cfgs = ["A1", "A2"], ["FULLY_CONNECTED", "ADD"], ["f1", "f2"], ["c_all", "c_fc"], ["P_yes", "None"], ["plain", "skip"]
  accepts = lambda c, p, o, cfg: c == "c_all" or (o == "FULLY_CONNECTED" and p == "P_yes")
  q = lambda x: '"%s"' % x
  tab = "[t \\in %s \\X %s \\X %s \\X %s |-> t \\in %s]" % (
      tlc.tla_str_set(checks), tlc.tla_str_set(pols), tlc.tla_str_set(ops), tlc.tla_str_set(cfgs),
      tlc.tla_set(["<<%s, %s, %s, %s>>" % (q(c), q(p), q(o), q(g)) for c in checks for p in pols for o in ops for g in cfgs if accepts(c, p, o, g)]))
  consts = dict(Algs=tlc.tla_str_set(algs), Ops=tlc.tla_str_set(ops), Funcs=tlc.tla_str_set(funcs), Checks=tlc.tla_str_set(checks),
                Policies=tlc.tla_str_set(pols), Cfgs=tlc.tla_str_set(cfgs), CheckAccepts=tab, MaxLen="3" if args.tier == "quick" else "4")
  r = tlc.run("C13_registry", "Registry", consts, invariants=["NoDuplicateOps", "AcceptIffLastRegistered"], properties=["OrderStable"],
              constraints=["EmitR"], view="View", workers=16, timeout=3600)
  if r.error or r.rc not in (0, 12):
    chk.machinery("TLC failed on Registry.tla: %s" % r.out[-600:])
    return {}
  if r.violated or r.prop_violated:
    chk.violation("design-level: %s violated in Registry.tla" % (r.violated + r.prop_violated), {"tlc": r.out[-2000:]})
  tables = []
  for line in r.printed("REG"):
    try:
      tables.append(json.loads(json.loads(line[line.index(",") + 1:line.rindex(">>")].strip())))
    except Exception:  # pylint: disable=broad-except
      pass
  policy_obj = {"P_yes": {"marker": "P_yes"}, "None": None}
  stubs = {f: {k: (lambda *a, _t=(f, k), **kw: _t) for k in ("init", "cal", "mat")} for f in funcs}
  def make_check(c):
    def fn(op_name, cfg, pol):
      pname = "None" if pol is None else pol["marker"]
      if not accepts(c, pname, str(getattr(op_name, "value", op_name)), "plain"):
        raise ValueError("refused by %s" % c)
    return fn
  check_fn = {c: make_check(c) for c in checks}
  cfg_obj = {"plain": Q.OpQuantizationConfig(), "skip": Q.OpQuantizationConfig(skip_checks=True)}
  ndiff = 0
  def outcome(f):
    try:
      return f()
    except ValueError:
      return "ValueError"
    except KeyError:
      return "KeyError"
  for t in tables:
    m = api.AlgorithmManagerApi()
    for h in t["hist"]:
      if h[0] == "op":
        m.register_quantized_op(h[1], Q.TFLOperationName(h[2]), stubs[h[3]]["init"], stubs[h[3]]["cal"], stubs[h[3]]["mat"])
      elif h[0] == "check":
        m.register_op_quant_config_validation_func(h[1], check_fn[h[2]])
      else:
        m.register_config_check_policy(h[1], policy_obj[h[2]])
    got = {
        "isop": sorted([a, o] for a in algs for o in ops if m.is_op_registered(a, Q.TFLOperationName(o))),
        "isalg": sorted(a for a in algs if m.is_algorithm_registered(a)),
        "supported": {a: outcome(lambda a=a: [x.value for x in m.get_supported_ops(a)]) for a in algs},
        "func": sorted([a, o, outcome(lambda a=a, o=o: _tag3(m, a, Q.TFLOperationName(o), Q, stubs))] for a in algs for o in ops),
        "chk": sorted([a, o, g, outcome(lambda a=a, o=o, g=g: m.check_op_quantization_config(a, Q.TFLOperationName(o), cfg_obj[g]) or "ok")] for a in algs for o in ops for g in cfgs),
    }
    sup = t["supported"]
    want = {"isop": sorted(list(x) for x in t["isop"]), "isalg": sorted(t["isalg"]),
            "supported": {a: ("ValueError" if list(sup[a]) == ["ValueError"] else list(sup[a])) for a in algs},
            "func": sorted(list(x) for x in t["func"]), "chk": sorted(list(x) for x in t["chk"])}
    if got != want:
      ndiff += 1
      bad = [k for k in got if got[k] != want[k]]
      # acceptance differing from the specification's rule is C13's subject; the rest is drift of the registry model
      if "chk" in bad:
        chk.violation("check_op_quantization_config does not decide by the last registered check function and policy after %s: spec %s impl %s" %
                      (t["hist"], [x for x in want["chk"] if x not in got["chk"]][:3], [x for x in got["chk"] if x not in want["chk"]][:3]),
                      {"property": "C13", "clause": "registry", "history": t["hist"]})
      else:
        chk.note("spec-drift registry after %s: %s differ" % (t["hist"], bad))
  return {"registry_states": r.distinct, "registry_tables_replayed": len(tables), "registry_disagreements": ndiff}


def _tag3(m, a, op, Q, stubs):
  """Tag of the registered functions, read through all three getters (they must be the three functions of ONE registration)."""
  fi, fc, fm = m.get_init_qsv_func(a, op), m.get_quantization_func(a, op, Q.QuantizeMode.CALIBRATE), m.get_quantization_func(a, op, Q.QuantizeMode.MATERIALIZE)
  tags = {f for f, d in stubs.items() if d["init"] is fi and d["cal"] is fc and d["mat"] is fm}
  return tags.pop() if len(tags) == 1 else "mixed"


def main():
  args = common.parse_args(sys.argv[2:])
  chk = common.Check("C13", "model_checking", args)
  reg_cov = registry_phase(chk, args)
  from absl import logging as alog
  alog.set_verbosity(alog.ERROR)
  from ai_edge_quantizer import quantizer, qtyping as Q
  kf = {f["id"]: f for f in chk.kf.get("findings", []) if "C13" in f["property"]}
  rng = np.random.default_rng(args.seed)
  models = {code: single_model(code, args.seed) for code in SINGLE}
  selectors = list(SINGLE) + ["INPUT", "OUTPUT", "*"]
  traces, meta = [], []
  t0 = time.time()
  counts = {"ctor_error": 0, "refused": 0, "accepted": 0, "star_skipped": 0, "star_applied": 0, "star_on_reused_quantizer": 0}
  specific = {}      # (config, algorithm, operator) -> does an update naming the operator accept it
  reused = {}        # operator -> one Quantizer whose '*' rule is replaced lattice point after lattice point
  for p in lattice(Q):
    base = {"config": pkey(p)}
    try:
      cfg = Q.OpQuantizationConfig(activation_tensor_config=p["a"], weight_tensor_config=Q.TensorQuantizationConfig(p["wb"], p["ws"], p["wg"], p["wd"]),
                                   compute_precision=p["cp"], explicit_dequantize=p["ed"])
      ctor = None
    except Exception as e:  # pylint: disable=broad-except
      ctor = type(e).__name__
    if ctor is not None:
      counts["ctor_error"] += 1
      traces.append({"star": False, "events": [{"ev": "ctor_error", "exc": ctor, "rules": 0}]})
      meta.append(dict(base, selector="-", algorithm="-"))
      continue
    for alg in ("min_max_uniform_quantize", "float_casting"):
      for sel in selectors:
        targets = list(SINGLE) if sel == "*" else [sel if sel in SINGLE else "FULLY_CONNECTED"]
        if sel == "*" and args.tier == "quick":
          targets = ["FULLY_CONNECTED", "ADD", "SOFTMAX", "EMBEDDING_LOOKUP", "DEPTHWISE_CONV_2D"]
        for code in targets:
          scn, model, info = models[code]
          q = quantizer.Quantizer(model)
          ev = [{"ev": "built", "exc": "", "rules": 0}]
          try:
            q.update_quantization_recipe(".*", Q.TFLOperationName(sel), cfg, alg)
            ev.append({"ev": "accepted", "exc": "", "rules": len(q.get_quantization_recipe())})
            if sel == code:
              specific[(pkey(p), alg, code)] = "yes"
          except Exception as e:  # pylint: disable=broad-except
            ev.append({"ev": "refused", "exc": type(e).__name__, "rules": len(q.get_quantization_recipe())})
            if sel == code:
              specific[(pkey(p), alg, code)] = "no"
            counts["refused"] += 1
            traces.append({"star": sel == "*", "events": ev})
            meta.append(dict(base, selector=sel, algorithm=alg, op=code))
            continue
          counts["accepted"] += 1
          applied = True
          if sel == "*":
            # keep the model I/O float so that "untouched" is a statement about the operator alone
            for io in ("INPUT", "OUTPUT"):
              q.update_quantization_recipe(".*", Q.TFLOperationName(io), None, "no_quantize")
            from ai_edge_quantizer import recipe_manager  # resolution as quantize() will see it
            algk, _ = q._recipe_manager.get_quantization_configs(Q.TFLOperationName(code), info["names"][0][scn["subs"][0]["ops"][0]["outs"][0]] + ";")  # pylint: disable=protected-access
            applied = str(getattr(algk, "value", algk)) != "no_quantize"
            ev.append({"ev": "applied" if applied else "skipped", "exc": "", "rules": len(q.get_quantization_recipe()),
                       "specific": specific.get((pkey(p), alg, code), "na")})
            counts["star_applied" if applied else "star_skipped"] += 1
            # the same '*' update on a Quantizer that has resolved many other '*' rules before (replaced in place)
            if code not in reused:
              reused[code] = quantizer.Quantizer(model)
            qr = reused[code]
            qr.update_quantization_recipe(".*", Q.TFLOperationName(sel), cfg, alg)
            algr, _ = qr._recipe_manager.get_quantization_configs(Q.TFLOperationName(code), info["names"][0][scn["subs"][0]["ops"][0]["outs"][0]] + ";")  # pylint: disable=protected-access
            appr = str(getattr(algr, "value", algr)) != "no_quantize"
            traces.append({"star": True, "events": [{"ev": "built", "exc": "", "rules": 0}, {"ev": "accepted", "exc": "", "rules": len(qr.get_quantization_recipe())},
                                                    {"ev": "applied" if appr else "skipped", "exc": "", "rules": len(qr.get_quantization_recipe()),
                                                     "specific": specific.get((pkey(p), alg, code), "na")}]})
            meta.append(dict(base, selector=sel, algorithm=alg, op=code, reused_quantizer=True))
            counts["star_on_reused_quantizer"] += 1
          try:
            # calibrated on an input x and evaluated on x (the moving average over several inputs would clip the larger ones)
            qmodels = []
            for x in inputs(n=3 if q.need_calibration else 1):
              cal = q.calibrate([{"x0": x}]) if q.need_calibration else None
              qmodels.append((x, bytes(q.quantize(cal).quantized_model)))
            qmodel = qmodels[0][1]
          except Exception as e:  # pylint: disable=broad-except
            ev.append({"ev": "quantize_raised", "exc": type(e).__name__ + ": " + str(e)[:100], "rules": len(q.get_quantization_recipe())})
            traces.append({"star": sel == "*", "events": ev})
            meta.append(dict(base, selector=sel, algorithm=alg, op=code))
            continue
          if not applied:
            pi, po = project.project(model), project.project(qmodel)
            # the operator under test is operator 0: its operands keep dtype, annotation and bytes
            o0 = scn["subs"][0]["ops"][0]
            mine = [t for t in o0["ins"] + o0["outs"] if t != -1]
            view = lambda pr: [(pr["subs"][0]["tensors"][t]["dt"], pr["subs"][0]["tensors"][t]["scale"], pr["bufs"][pr["subs"][0]["tensors"][t]["buf"]]["sha"]) for t in mine]
            same = view(pi) == view(po)
            ev.append({"ev": "untouched" if same else "touched", "exc": "", "rules": 1})
          else:
            ev.append({"ev": "returned", "exc": "", "rules": len(q.get_quantization_recipe())})
            prepared, sane, err, why = True, True, 0.0, ""
            for x, qm in qmodels:
              p1, s1, e1, w1 = soundness(model, qm, [x] if len(qmodels) > 1 else inputs())
              prepared, sane, err, why = prepared and p1, sane and s1, max(err, e1), why or w1
            ev.append({"ev": "prepared" if prepared else "prepare_failed", "exc": why if not prepared else "", "rules": 1})
            if prepared:
              ev.append({"ev": "sane" if sane else "insane", "exc": "%.3f %s" % (err, why), "rules": 1})
          traces.append({"star": sel == "*", "events": ev})
          meta.append(dict(base, selector=sel, algorithm=alg, op=code))
  for i, t in enumerate(traces):
    t["id"] = i + 1
  path = os.path.join(tlc.WORK, "C13_obs.json")
  json.dump(traces, open(path, "w"))
  r = tlc.run("C13_policy", "Policy", {}, constraints=["Emit"], workers=1, env={"OBS_FILE": path}, timeout=3600)
  verdicts = {}
  for line in r.printed("VERDICT"):
    try:
      v = json.loads(json.loads(line[line.index(",") + 1:line.rindex(">>")].strip()))
      if v["id"] not in verdicts or v["consumed"] >= verdicts[v["id"]]["consumed"]:
        verdicts[v["id"]] = v
    except Exception:  # pylint: disable=broad-except
      pass
  if r.error or len(verdicts) != len(traces):
    chk.machinery("Policy.tla run failed: %d verdicts for %d traces: %s" % (len(verdicts), len(traces), r.out[-600:]))
  bad_accept = {}
  for t, m in zip(traces, meta):
    v = verdicts.get(t["id"])
    if v is None:
      continue
    rep = dict(m, property="C13", events=t["events"], verdict=v)
    if v["consumed"] != v["len"]:
      chk.violation("trace not accepted by the protocol specification at event %d (%s)" % (v["consumed"] + 1, t["events"][v["consumed"]]["ev"]), dict(rep, clause="protocol"))
      continue
    for clause in ("only_value_error", "refusal_noop", "star_accepts", "star_consistent"):
      if not v[clause]:
        chk.violation("%s false for %s / %s / %s" % (clause, m.get("selector"), m["config"], m.get("algorithm")), dict(rep, clause=clause))
    if not v["no_late_failure"]:
      fid = match_known(kf, m, t)
      if fid:
        chk.known(fid)
      else:
        chk.violation("accepted pair fails later (%s): %s %s %s %s" % (v["st"], m.get("op"), m["config"], m.get("algorithm"), t["events"][-1]["exc"]),
                      dict(rep, clause="no_late_failure"))
      bad_accept["%s %s %s" % (m.get("op"), m["config"], v["st"])] = t["events"][-1]["exc"]
  chk.cov.update({
      "states": r.distinct, "transitions": r.generated, "traces_validated_against_impl": len(traces), "counts": counts,
      "accepted_but_failing": bad_accept, **reg_cov, "evaluations": len(traces), "distinct_nontrivial": counts["accepted"],
      "rule": "every point of the lattice (480 configs x 2 algorithms x 24 selectors); non-trivial = accepted by the API; accepted points are quantized on a "
              "single-operator model, run in the interpreter on 6 inputs and compared with the float model (relative RMS error < 0.12 of the output range)",
      "samples": [dict(meta[i], events=traces[i]["events"]) for i in (0, len(traces) // 2, len(traces) - 1)], "wall_impl_s": round(time.time() - t0, 1),
      "exhaustive": True,
  })
  chk.assumptions += ["'runtime-sound' is an interpreter observation: prepares, invokes, finite, not constant, relative RMS error < 0.12 (threshold placed in the measured gap "
                      "between sound (<= 0.04) and unsound (>= 0.24) pairs)"]
  return chk.finish()


def match_known(kf, m, t):
  """Known findings, identified by (operator, config class)."""
  cfgk = m["config"]
  for fid, f in kf.items():
    for pat in f.get("points", []):
      if pat["op"] == m.get("op") and all(tok in cfgk for tok in pat["config_tokens"]) and t["events"][-1]["ev"] in pat.get("events", [t["events"][-1]["ev"]]):
        return fid
  return None


if __name__ == "__main__":
  sys.exit(main())
