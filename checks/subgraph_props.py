#!/venv/bin/python
"""C19: each subgraph of a multi-signature model is transformed as if it stood alone.

design    : TLC enumerates two-subgraph scenarios of Pipeline.tla (independent graphs, equal structure with different
            names); the specification's machine is also run (PipelineFrom.tla) on each subgraph as a stand-alone scenario;
            SubgraphIndependent = the terminal state of subgraph i inside the pair equals the terminal state of the
            stand-alone run (operators, wiring, outputs, dtypes, names, parameter terms up to the subgraph index) and the
            outcomes agree (the pair raises iff one of the parts raises, at the same site).
spec->code: the same on the implementation: the two-subgraph model and the two extracted single-subgraph models are
            quantized with the same recipe and the same statistics (merged per subgraph); operators, wiring, dtypes,
            annotations (exact floats) and constant bytes of subgraph i must be equal; opcode indices are excluded,
            builtin codes compared. TLC (Observed.tla) also evaluates the graph predicates on the pair's result.
"""
import copy
import json
import os
import sys
import time

sys.path.insert(0, os.path.dirname(os.path.dirname(os.path.abspath(__file__))))
from harness import common  # pylint: disable=g-import-not-at-top

common.setup_env()
from harness import configs, pipecheck, pipeline, project, rgen, synth  # pylint: disable=g-import-not-at-top

M = configs.M


SHARE_WHY = ("buffer_sharing", "both_q_and_unq")


def cross_shared(scn):
  """Some constant buffer is referenced from two different subgraphs."""
  gs = [set(g for g in sub.get("tbuf", []) if g) for sub in scn["subs"]]
  return any(gs[i] & gs[j] for i in range(len(gs)) for j in range(i + 1, len(gs)))


def single(scn, si):
  return {"subs": [scn["subs"][si]], "mode": [scn["mode"][si]], "inmode": scn["inmode"], "outmode": scn["outmode"]}


def renum(x, si):
  """Rename subgraph index si+1 -> 1 inside parameter terms (['cal', s, t], buffers [s, t])."""
  if isinstance(x, list):
    if len(x) == 3 and x[0] == "cal" and x[1] == si + 1:
      return ["cal", 1, x[2]]
    if len(x) == 2 and all(isinstance(v, int) for v in x) and x[0] == si + 1:
      return [1, x[1]]
    return [renum(v, si) for v in x]
  return x


def strip(scn):
  return {k: scn[k] for k in ("subs", "mode", "inmode", "outmode")}


_W = {}


def _winit():
  common.setup_env()
  from absl import logging as alog
  alog.set_verbosity(alog.ERROR)


def sub_view(proj, si, names_map=None):
  s = proj["subs"][si]
  codes = proj["codes"]
  tens = []
  for t in s["tensors"]:
    b = proj["bufs"][t["buf"]] if 0 <= t["buf"] < proj["nbuf"] else {"sha": "oob", "len": -2}
    tens.append((t["dt"], tuple(t["scale"]), tuple(t["zp"]), t["qd"] if len(t["scale"]) > 1 else 0, tuple(t["shape"]), b["sha"], b["len"]))
  ops = [(o["code"], tuple(o["ins"]), tuple(o["outs"]), o["opts"]) for o in s["ops"]]
  # the signature exporting this subgraph (wherever it sits in the signature table): name -> tensor, in its own order
  sig = [x for x in proj["sigs"] if x["sub"] == si]
  sigv = [([list(e) for e in x["ins"]], [list(e) for e in x["outs"]]) for x in sig]
  return {"ops": ops, "tensors": tens, "gins": s["gins"], "gouts": s["gouts"], "signature": sigv}


def _impl_task(item):
  import numpy as np
  scn, seed = item
  out = {"key": synth.scn_key(strip(scn)), "problems": [], "outcome": None, "obs": None}
  try:
    model, info = synth.build(scn, seed)
  except synth.Unrealisable as e:
    out["unreal"] = str(e)
    return out
  scn_c = dict(scn, codes=info["codes"])
  if scn.get("nosig"):
    scn_c["nosig"] = scn["nosig"]
  multi = pipeline.run_impl(scn_c, seed=seed, model=model, info=info)
  out["outcome"] = (multi["outcome"], multi["why"])
  parts = []
  for si in range(len(scn["subs"])):
    sscn = dict(single(scn, si), codes=[info["codes"][si]])
    # same constants: rebuild with the same data by reusing the multi model's buffers through const_fn
    min_model = project.read(model)
    def const_fn(_si, t, role, shape, si=si):
      tensor = min_model.subgraphs[si].tensors[t]
      raw = np.asarray(min_model.buffers[tensor.buffer].data, np.uint8).tobytes()
      return np.frombuffer(raw, np.float32 if role != "aux" else np.int32).reshape(shape)
    smodel, sinfo = synth.build(sscn, seed, const_fn=const_fn)
    # same statistics: the multi model's injected statistics, renamed
    def stats(q, m, inf, si=si, sinfo=sinfo):
      full = pipeline.inject_stats(scn, info)
      return {sinfo["names"][0][t]: full[info["names"][si][t]] for t, r in enumerate(scn["subs"][si]["trole"]) if r == "act"}
    parts.append(pipeline.run_impl(sscn, seed=seed, model=smodel, info=sinfo, stats=stats))
  # outcome: the pair raises iff a part raises
  part_raise = [p for p in parts if p["outcome"] != "done"]
  if multi["outcome"] != "done" and not part_raise and scn.get("share_raise_predicted") and multi["why"] in SHARE_WHY:
    return out      # sharers across the subgraphs that need different versions of the tied constant: refused as C15 demands
  if (multi["outcome"] != "done") != bool(part_raise):
    out["problems"].append(("outcome", "pair %s/%s, parts %s" % (multi["outcome"], multi["why"], [(p["outcome"], p["why"]) for p in parts])))
    return out
  if multi["outcome"] != "done":
    return out
  mp = project.project(multi["out_bytes"])
  out["obs"] = pipeline.obs_record(0, scn, project.project(model), mp)
  for si, p in enumerate(parts):
    sp = project.project(p["out_bytes"])
    a, b = sub_view(mp, si), sub_view(sp, 0)
    for field in ("ops", "tensors", "gins", "gouts", "signature"):
      if field == "signature" and si in scn.get("nosig", ()):
        continue      # this subgraph is not exported by any signature inside the pair
      if a[field] != b[field]:
        out["problems"].append(("subgraph %d %s" % (si, field), "inside the pair %s, alone %s" % (str(a[field])[:300], str(b[field])[:300])))
  return out


def main():
  args = common.parse_args(sys.argv[2:])
  chk = common.Check("C19", "model_checking", args)
  kinds = ["FC", "EW2", "FIXT", "SAMEIN0", "CONCAT"]
  mw = [configs.NOQ, M("SRQ", "a8a", "w8c"), M("WO", "-", "w8c"), M("DRQ", "-", "w8c")]
  ma = [configs.NOQ, M("SRQ", "a8a", "w8c"), M("SRQ", "a16", "w8c")]
  # (three operators over two subgraphs do not finish within hours; the thorough tier widens the operator kinds instead and
  # relies on the random pairs for larger subgraphs)
  if args.tier == "thorough":
    kinds = kinds + ["EW1", "SAMEIN1", "SPLIT", "UNSUP"]
  c = configs.cfg(2, kinds, mw, ma, configs.IO_2, share="none", max_sub=2)
  r, dumps = pipecheck.design_run("C19_pairs", c, ["InvTopo", "InvWellFormed"], timeout=7200)
  if r.error or r.rc not in (0, 12):
    chk.machinery("TLC failed: %s" % r.out[-600:])
    return chk.finish()
  pairs = {k: d for k, d in dumps.items() if len(d["scn"]["subs"]) == 2}
  # pairs in which a subgraph has no operators (identity signature) or returns an input as it is
  c2 = configs.cfg(2, ["FC", "FIXT"], [configs.NOQ, M("SRQ", "a8a", "w8c"), M("WO", "-", "w8c")], [configs.NOQ, M("SRQ", "a8a", "w8c")], configs.IO_2,
                   share="none", max_sub=2, passthru=True)
  r2, dumps2 = pipecheck.design_run("C19_pairs_passthru", c2, ["InvTopo", "InvWellFormed"], timeout=7200)
  if r2.error or r2.rc not in (0, 12):
    chk.machinery("TLC failed: %s" % r2.out[-600:])
    return chk.finish()
  for k, d in dumps2.items():
    if len(d["scn"]["subs"]) == 2 and any(not sub["ops"] or set(sub["gins"]) & set(sub["gouts"]) for sub in d["scn"]["subs"]):
      pairs.setdefault(k, d)
      dumps.setdefault(k, d)
  # random larger pairs through the specification's machine
  nrand = 60 if args.tier == "quick" else 2000
  rand = [rgen.gen(args.seed * 611953 + i, 2, 5, nsub=2) for i in range(nrand)]
  rfp, rd = pipecheck.design_run_from("C19_random_pairs", rand, [], timeout=7200)
  for k, d in rd.items():
    pairs.setdefault(k, d)
  # pairs whose subgraphs SHARE a constant buffer (a tied weight), one of them reading its tensor from two operators; every
  # assignment of float / weight-only / dynamic-range / static-range to the three operators, both subgraph orders, the two readers side by
  # side or chained, with and without a (private) bias
  shared = []
  smodes = [rgen.NOQ, {"m": "WO", "a": "-", "w": "w8c"}, {"m": "DRQ", "a": "-", "w": "w8c"}, {"m": "SRQ", "a": "a8a", "w": "w8c"}]
  for chained in (False, True):
    for bias in (False, True):
      one = {"ops": [{"kind": "FC", "ins": [0, 1, 2 if bias else -1], "outs": [3 if bias else 2]}],
             "trole": ["act", "w"] + (["b"] if bias else []) + ["act"], "gins": [0], "gouts": [3 if bias else 2]}
      nb = 1 if bias else 0
      o1, o2 = 2 + nb, 3 + nb
      two = {"ops": [{"kind": "FC", "ins": [0, 1, 2 if bias else -1], "outs": [o1]}, {"kind": "FC", "ins": [o1 if chained else 0, 1, -1], "outs": [o2]}],
             "trole": ["act", "w"] + (["b"] if bias else []) + ["act", "act"], "gins": [0], "gouts": [o2] if chained else [o1, o2]}
      for sub in (one, two):
        sub["tbuf"] = [1 if r == "w" else 0 for r in sub["trole"]]
        sub["tsh"] = [[1, 2] if r == "act" else [0, 0] for r in sub["trole"]]
        sub["sigrev"] = False
      for m0 in smodes:
        for m1 in smodes:
          for m2 in smodes:
            for order in (0, 1):
              subs, mode = ([one, two], [[m0], [m1, m2]]) if order == 0 else ([two, one], [[m1, m2], [m0]])
              if args.tier == "quick" and (len(shared) + args.seed) % 2:
                shared.append(None)
                continue
              shared.append({"subs": copy.deepcopy(subs), "mode": copy.deepcopy(mode), "inmode": rgen.NOQ, "outmode": rgen.NOQ})
  shared = [x for x in shared if x is not None]
  rsh, shd = pipecheck.design_run_from("C19_shared_pairs", shared, [], timeout=7200)
  if rsh.error or rsh.rc not in (0, 12):
    chk.machinery("TLC failed on the shared-constant pairs: %s" % rsh.out[-600:])
    return chk.finish()
  nshared = 0
  for k, d in shd.items():
    nshared += k not in pairs
    pairs.setdefault(k, d)
    rd.setdefault(k, d)
  singles = {}
  for d in pairs.values():
    for si in range(2):
      s1 = single(d["scn"], si)
      singles.setdefault(synth.scn_key(strip(s1)), s1)
  rs, sd = pipecheck.design_run_from("C19_singles", list(singles.values()), [], timeout=7200)
  if rs.error or rs.rc not in (0, 12):
    chk.machinery("TLC failed on the stand-alone runs: %s" % rs.out[-600:])
    return chk.finish()
  # ---- design level: SubgraphIndependent over the specification's behaviours
  ndesign = 0
  for k, d in pairs.items():
    parts = [sd.get(synth.scn_key(strip(single(d["scn"], si)))) for si in range(2)]
    if any(p is None for p in parts):
      chk.machinery("stand-alone run missing for pair %s" % k)
      continue
    ndesign += 1
    praise = [p for p in parts if p["pc"] == "raised"]
    if d["pc"] == "raised" and not praise and d["why"] in SHARE_WHY and cross_shared(d["scn"]):
      continue      # the tied constant is needed in two versions: the pair is refused (C15), there is nothing to compare
    if (d["pc"] == "raised") != bool(praise) or (d["pc"] == "raised" and d["why"] not in [p["why"] for p in praise]):
      chk.violation("design-level: pair outcome %s/%s but stand-alone outcomes %s" % (d["pc"], d["why"], [(p["pc"], p["why"]) for p in parts]),
                    {"property": "C19", "scenario": d["scn"], "clause": "design-outcome"})
      continue
    if d["pc"] != "done":
      continue
    for si, p in enumerate(parts):
      a, b = d["R"][si], p["R"][0]
      if (a["ops"], a["outs"], a["dt"], a["nm"]) != (b["ops"], b["outs"], b["dt"], b["nm"]) or renum(a["par"], si) != b["par"]:
        chk.violation("design-level: subgraph %d of the pair differs from its stand-alone transformation" % si,
                      {"property": "C19", "scenario": d["scn"], "clause": "design-independent", "pair": a, "alone": b})
  # ---- implementation
  shk = sorted(k for k in shd if cross_shared(pairs[k]["scn"]))
  keys = common.sample_keep(sorted(k for k in pairs if k not in set(shk)), 400 if args.tier == "quick" else 20000, args.seed)
  keys += common.sample_keep(shk, 160 if args.tier == "quick" else 10**6, args.seed)       # the shared-constant stratum is never sampled away
  # in a third of the pairs the second subgraph is not exported by any signature def (a body / helper subgraph)
  import zlib
  items = [(dict(strip(pairs[k]["scn"]), **({"nosig": [1]} if zlib.crc32(k.encode()) % 3 == 0 else {}),
                 **({"share_raise_predicted": True} if pairs[k]["pc"] == "raised" and pairs[k]["why"] in SHARE_WHY and cross_shared(pairs[k]["scn"]) else {})), args.seed)
           for k in keys]
  t0 = time.time()
  import concurrent.futures as cf
  results = []
  with cf.ProcessPoolExecutor(max_workers=args.procs, initializer=_winit) as ex:
    for out in ex.map(_impl_task, items, chunksize=4):
      results.append(out)
  obs, idx = [], {}
  ncmp = 0
  for i, (it, out) in enumerate(zip(items, results)):
    if out.get("unreal") is not None:
      continue
    ncmp += 1
    for kind, msg in out["problems"]:
      chk.violation("%s: %s" % (kind, msg[:300]), {"property": "C19", "scenario": it[0], "seed": it[1], "clause": kind})
    pred = dumps.get(out["key"]) or rd.get(out["key"])
    if pred is not None and out["outcome"] is not None:
      want = (pred["pc"], pred["why"] if pred["pc"] == "raised" else "none")
      if tuple(out["outcome"]) != want:
        chk.note("spec-drift outcome %s: spec %s impl %s" % (out["key"], want, out["outcome"]))
    if out.get("obs") is not None:
      obs.append(out["obs"])
      idx[i] = len(obs)
  verdicts, ro = pipecheck.observe_with_tlc("C19_observed", obs)
  for i, out in enumerate(results):
    v = verdicts.get(idx.get(i))
    if v is not None and not all(v[cname] for cname in ("inrange", "topo", "single", "names", "skelops", "skelio", "skelsig", "skeltyp", "modes")):
      chk.violation("graph predicates false on the pair's result", {"property": "C19", "scenario": items[i][0], "clause": "graph", "verdict": v})
  chk.cov.update({
      "states": r.distinct + r2.distinct + rs.distinct + rfp.distinct, "transitions": r.generated + r2.generated + rs.generated + rfp.generated,
      "traces_validated_against_impl": ncmp, "pairs_enumerated": len(pairs), "pairs_sharing_a_constant_buffer": nshared, "design_level_pairs_compared": ndesign,
      "evaluations": ncmp, "distinct_nontrivial": sum(1 for o in results if o.get("outcome") and o["outcome"][0] == "done"),
      "rule": "two-subgraph scenarios (independent graphs, equal structure with different names, insertion-heavy subgraph 0 beside a non-trivial "
              "subgraph 1, subgraphs sharing a constant buffer that one of them reads from two operators) enumerated by TLC up to the bound + random pairs of 2-5 ops; each compared with the stand-alone runs of its parts",
      "samples": [items[0][0]] if items else [], "impl_wall_s": round(time.time() - t0, 1), "exhaustive": len(keys) == len(pairs),
  })
  chk.assumptions += ["statistics are injected per subgraph and merged (equal values for the pair and the parts); for constants shared between subgraphs the stand-alone part holds its own copy of the data (their mutual consistency is C15's subject)"]
  return chk.finish()


if __name__ == "__main__":
  sys.exit(main())
