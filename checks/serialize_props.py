#!/venv/bin/python
"""C16: large-model (external buffer) serialization equals the in-place form.

design    : TLC checks Aligned / InBounds / Disjoint / PointsAtData on spec/Serialize.tla (two-pass layout with the
            header of the final pass allowed to shrink when a scalar field becomes default-valued)
code->spec: quantized models (pipeline scenarios x recipes, plus synthetic layouts with zero-length / odd-sized
            constants and varying description lengths) are produced twice through the public quantize(): ordinary
            path and large-model path (hook: AI_EDGE_QUANTIZER_VERIF_LARGE_MODEL_THRESHOLD=0). The raw
            (offset, size) of every buffer and the file length, read with Model.GetRootAs (which does not inline
            external buffers), are judged by TLC (spec/ObservedSerialize.tla); "selects exactly the bytes the ordinary
            path embeds", "all other fields equal" and "the interpreter computes identical outputs" are observations.
"""
import json
import os
import sys
import time

sys.path.insert(0, os.path.dirname(os.path.dirname(os.path.abspath(__file__))))
from harness import common  # pylint: disable=g-import-not-at-top

common.setup_env()
from harness import pipeline, project, rgen, synth, tlc  # pylint: disable=g-import-not-at-top
import numpy as np  # pylint: disable=g-import-not-at-top

THRESH = "AI_EDGE_QUANTIZER_VERIF_LARGE_MODEL_THRESHOLD"


def raw_buffers(model_bytes):
  from ai_edge_litert import schema_py_generated as S
  m = S.Model.GetRootAs(bytes(model_bytes), 0)
  out = []
  for i in range(m.BuffersLength()):
    b = m.Buffers(i)
    out.append({"off": int(b.Offset()), "size": int(b.Size()), "inline": int(b.DataLength())})
  return out


def strip_buffers(proj):
  p = json.loads(json.dumps(proj))
  p.pop("bufs", None)
  for sub in p["subs"]:
    for t in sub["tensors"]:
      pass
  return p


def interp_outputs(model_bytes, seed):
  from ai_edge_litert import interpreter as tfl
  it = tfl.Interpreter(model_content=bytes(model_bytes), experimental_op_resolver_type=tfl.OpResolverType.BUILTIN_WITHOUT_DEFAULT_DELEGATES)
  it.allocate_tensors()
  rng = np.random.default_rng(seed)
  for d in it.get_input_details():
    v = rng.normal(size=d["shape"]).astype(np.float32) if d["dtype"] == np.float32 else np.zeros(d["shape"], d["dtype"])
    it.set_tensor(d["index"], v)
  it.invoke()
  return [it.get_tensor(d["index"]).tobytes() for d in it.get_output_details()]


class LargePathRaised(Exception):
  """The ordinary path returned a model, the large-model path raised on the same model, recipe and statistics."""


def two_paths(build_quantizer, cal):
  """Returns (small bytes, large bytes) through the public API."""
  os.environ.pop(THRESH, None)
  q = build_quantizer()
  small = bytes(q.quantize(cal() if callable(cal) else cal).quantized_model)
  os.environ[THRESH] = "0"
  try:
    q = build_quantizer()
    try:
      large = bytes(q.quantize(cal() if callable(cal) else cal).quantized_model)
    except Exception as e:  # pylint: disable=broad-except
      raise LargePathRaised("%s: %s" % (type(e).__name__, str(e)[:200])) from e
  finally:
    os.environ.pop(THRESH, None)
  return small, large


def observe(small, large, seed):
  raw = raw_buffers(large)
  ps, pl = project.project(small), project.project(large)
  bufs = []
  for i, b in enumerate(raw):
    sb = ps["bufs"][i] if i < len(ps["bufs"]) else {"len": -2, "sha": "missing"}
    has = sb["len"] >= 0
    if b["off"] > 1 or b["size"] > 0:
      sel = large[b["off"]: b["off"] + b["size"]]
      same = has and project._h(sel) == sb["sha"] and len(sel) == sb["len"]  # pylint: disable=protected-access
    else:
      same = (not has) or sb["len"] == 0
    bufs.append({"off": b["off"], "size": b["size"], "has": has, "want": max(sb["len"], 0), "same": bool(same), "inline": b["inline"]})
  def run(mb):
    try:
      return ("ok", interp_outputs(mb, seed))
    except Exception as e:  # pylint: disable=broad-except
      return ("error", str(e)[:200])
  rs, rl = run(small), run(large)
  # "the interpreter loads both and computes identical outputs": the large form must behave exactly like the ordinary one
  # (if the ordinary model fails at invoke on this data - e.g. integer RSQRT of a negative - the large one must fail alike)
  outs_equal = rs == rl
  loads = rl[0] == "ok" or rs[0] == "error"
  from ai_edge_litert import schema_py_generated as S
  return {"total": len(large), "bufs": bufs, "nbuf_small": len(ps["bufs"]), "fields_equal": strip_buffers(ps) == strip_buffers(pl),
          "interp_equal": bool(outs_equal), "loads": loads, "external": any(b["off"] > 1 for b in raw)}


def synthetic_layouts(tier):
  """Float models whose constants have zero length / odd sizes and whose description length varies (header residues)."""
  S = synth.S
  out = []
  dls = range(0, 40, 1 if tier == "thorough" else 3)
  for dl in dls:
    for nzero in (0, 1, 2, 3):
      for sizes in ([4], [1, 5], [3, 16, 17], [33]):
        g = synth.G(description=b"d" * dl)
        sg = g.subgraph()
        # metadata buffers (as the converter writes: min_runtime_version, conversion metadata) - before the constants, after
        # them, or none: they are buffers with data like any other
        meta = (None, "before", "after")[(dl // (1 if tier == "thorough" else 3) + nzero) % 3]
        if meta == "before":
          g.metadata("min_runtime_version", b"1.5.0" + b"\0" * 11)
          g.metadata("CONVERSION_METADATA", bytes(range(84)))
        x = g.tensor(sg, "x", [1, 2, 2, 4])
        w = g.tensor(sg, "w", [4, 4], np.arange(16, dtype=np.float32).reshape(4, 4) / 8 - 1)
        y = g.tensor(sg, "y", [1, 2, 2, 4])
        g.op(sg, S.BuiltinOperator.FULLY_CONNECTED, [x, w, -1], [y], synth.opt(S.FullyConnectedOptionsT, keepNumDims=True), S.BuiltinOptions.FullyConnectedOptions)
        prev = y
        for k, n in enumerate(sizes):
          c = g.tensor(sg, "c%d" % k, [n], (np.arange(n, dtype=np.float32) + 1) / 4)
        for k in range(nzero):
          g.tensor(sg, "z%d" % k, [0], np.zeros([0], np.float32))
        if meta == "after":
          g.metadata("min_runtime_version", b"1.5.0" + b"\0" * 11)
        sg.inputs = [x]
        sg.outputs = [prev]
        g.signature("serving_default", 0, [("x", x)], [("o", prev)])
        out.append(("layout dl=%d zero=%d sizes=%s meta=%s" % (dl, nzero, sizes, meta), g.bytes()))
  return out


def numeric_policy_ok(scn, codes):
  """Modes the default policy refuses for the chosen concrete operator are skipped."""
  ok4 = {"SRQ": ("FULLY_CONNECTED", "CONV_2D"), "DRQ": ("FULLY_CONNECTED", "EMBEDDING_LOOKUP"), "WO": ("BATCH_MATMUL", "FULLY_CONNECTED", "EMBEDDING_LOOKUP")}
  for si, ms in enumerate(scn["mode"]):
    for oi, m in enumerate(ms):
      w = str(m.get("w", "-"))
      if w.startswith("w4") and codes[si][oi] not in ok4.get(m["m"], ()):
        return False
  return True


def main():
  args = common.parse_args(sys.argv[2:])
  chk = common.Check("C16", "model_checking", args)
  from absl import logging as alog
  alog.set_verbosity(alog.ERROR)
  from ai_edge_quantizer import quantizer, qtyping as Q
  kfs = {f["id"] for f in chk.kf.get("findings", []) if "C16" in f["property"]}
  fixes = json.load(open(os.path.join(common.VERIF, "known_findings.json"))).get("serialize_spec_fixes", [])
  r = tlc.run("C16_serialize", "Serialize", dict(NBuf="3" if args.tier == "quick" else "4", Sizes="{-1, 0, 1, 15, 16, 17, 33}",
                                                   Hdrs="96..127", Fixes=tlc.tla_str_set(fixes)),
              invariants=["Aligned", "InBounds", "Disjoint", "PointsAtData"], workers=16, timeout=3600)
  if r.error or r.rc not in (0, 12):
    chk.machinery("TLC failed: %s" % r.out[-800:])
  design_violated = list(r.violated)
  if design_violated and "F18" not in kfs:
    chk.violation("design-level: %s violated in Serialize.tla" % design_violated, {"tlc": r.out[-2500:]})
  elif design_violated:
    chk.note("design-level: %s violated in Serialize.tla as recorded under known finding F18 (zero-length constant)" % design_violated)
  # ---------------- real executions
  cases = []
  t0 = time.time()
  drq = Q.OpQuantizationConfig(weight_tensor_config=Q.TensorQuantizationConfig(8, True, Q.QuantGranularity.CHANNELWISE), compute_precision=Q.ComputePrecision.INTEGER)
  drq4 = Q.OpQuantizationConfig(weight_tensor_config=Q.TensorQuantizationConfig(4, True, Q.QuantGranularity.CHANNELWISE), compute_precision=Q.ComputePrecision.INTEGER)
  nlayout = 0
  for name, model in synthetic_layouts(args.tier):
    def bq(model=model):
      q = quantizer.Quantizer(model)
      q.update_quantization_recipe(".*", Q.TFLOperationName.FULLY_CONNECTED, drq)
      return q
    cases.append((name, bq, None, "zero=0" not in name))
    # the same layout with 4-bit weights: the rewritten constant is PACKED (two values per byte), its byte length is not
    # (number of elements) x (item size)
    def bq4(model=model):
      q = quantizer.Quantizer(model)
      q.update_quantization_recipe(".*", Q.TFLOperationName.FULLY_CONNECTED, drq4)
      return q
    cases.append((name + " w4", bq4, None, "zero=0" not in name))
    # the same float model handed over in EXTERNAL-buffer form (the only form a model beyond 2 GB can have): made by the library
    # itself - a recipe that selects nothing, written through the large-model path - and quantized through the large path again;
    # the reference is the ordinary path on the ordinary form
    nlayout += 1
    if nlayout % 4 == 1:
      def ext_form(model=model):
        q0 = quantizer.Quantizer(model)
        q0.update_quantization_recipe("nomatch_zz", Q.TFLOperationName.FULLY_CONNECTED, None, "no_quantize")
        os.environ[THRESH] = "0"
        try:
          return bytes(q0.quantize().quantized_model)
        finally:
          os.environ.pop(THRESH, None)
      try:
        ext = ext_form()
      except Exception:  # pylint: disable=broad-except
        ext = None
      if ext is not None:
        def bqx(model=model, ext=ext):
          q = quantizer.Quantizer(ext if os.environ.get(THRESH) else model)
          q.update_quantization_recipe(".*", Q.TFLOperationName.FULLY_CONNECTED, drq)
          return q
        cases.append((name + " input=external-form", bqx, None, "zero=0" not in name))
  nrand = 40 if args.tier == "quick" else 1500
  for i in range(nrand):
    scn = rgen.gen(args.seed * 104729 + i, 2, 6)
    try:
      model, info = synth.build(scn, args.seed + i)
    except synth.Unrealisable:
      continue
    if pipeline.has_f15(scn, info["codes"]):
      continue      # output differs from run to run (known finding F15): interpreter outputs of the two forms cannot be compared
    def bq(model=model, scn=scn, info=info):
      q = quantizer.Quantizer(model)
      pipeline.apply_recipe(q, scn, info)
      return q
    cases.append(("random %d" % i, bq, (lambda scn=scn, info=info: pipeline.inject_stats(scn, info)), False))
  # histories: the SAME Quantizer quantizes twice with different recipes (the second result must not depend on the first)
  nhist = 25 if args.tier == "quick" else 600
  for i in range(nhist):
    scn_a = rgen.gen(args.seed * 7727 + i, 2, 5, kinds=["FC", "BMM", "EMB", "EW2", "FIXT", "TCONV"])
    try:
      model, info = synth.build(scn_a, args.seed + i)
    except synth.Unrealisable:
      continue
    rnd = __import__("random").Random(args.seed * 31 + i)
    scn_b = dict(scn_a, mode=[[rnd.choice(rgen.kind_modes(o["kind"])) for o in sub["ops"]] for sub in scn_a["subs"]], codes=info["codes"])
    if not numeric_policy_ok(scn_b, info["codes"]) or not numeric_policy_ok(dict(scn_a, codes=info["codes"]), info["codes"]):
      continue
    if pipeline.has_f15(scn_b, info["codes"]):
      continue
    def recipe_of(scn, model=model, info=info):
      q = quantizer.Quantizer(model)
      pipeline.apply_recipe(q, scn, info)
      return json.loads(json.dumps(q.get_quantization_recipe()))
    try:
      ra, rb = recipe_of(dict(scn_a, codes=info["codes"])), recipe_of(scn_b)
    except ValueError:
      continue
    class Hist:       # a Quantizer-like object whose quantize() runs the whole history and returns the LAST result
      def __init__(self, model, ra, rb, cal):
        self.q = quantizer.Quantizer(model)
        self.ra, self.rb, self.cal = ra, rb, cal
      def quantize(self, _):
        self.q.load_quantization_recipe(self.ra)
        try:
          self.q.quantize(self.cal())
        except Exception:  # pylint: disable=broad-except
          pass
        self.q.load_quantization_recipe(self.rb)
        return self.q.quantize(self.cal())
    calf = (lambda scn=scn_a, info=info: pipeline.inject_stats(scn, info))
    cases.append(("history %d" % i, (lambda model=model, ra=ra, rb=rb, calf=calf: Hist(model, ra, rb, calf)), None, False))
  obs, meta = [], []
  nraise = 0
  for name, bq, cal, has_zero in cases:
    try:
      small, large = two_paths(bq, cal)
    except LargePathRaised as e:
      # "for any model, the bytes produced by that path describe the same model": here the path produced nothing
      chk.violation("the large-model path raised where the ordinary path returned a model (%s): %s" % (name, e),
                    {"property": "C16", "case": name, "clause": "large-path-raises", "error": str(e)})
      continue
    except Exception as e:  # pylint: disable=broad-except
      nraise += 1      # the ordinary path refuses this model / recipe: nothing to compare
      continue
    o = observe(small, large, args.seed)
    o["id"] = len(obs) + 1
    obs.append(o)
    meta.append((name, has_zero))
  path = os.path.join(tlc.WORK, "C16_obs.json")
  json.dump(obs, open(path, "w"))
  ro = tlc.run("C16_observed", "ObservedSerialize", {}, constraints=["Emit"], workers=1, env={"OBS_FILE": path}, timeout=3600)
  verdicts = {}
  for line in ro.printed("VERDICT"):
    try:
      v = json.loads(json.loads(line[line.index(",") + 1:line.rindex(">>")].strip()))
      verdicts[v["id"]] = v
    except Exception:  # pylint: disable=broad-except
      pass
  if ro.error or len(verdicts) != len(obs):
    chk.machinery("ObservedSerialize failed: %d verdicts for %d observations: %s" % (len(verdicts), len(obs), ro.out[-600:]))
  nlarge = 0
  for o, (name, has_zero) in zip(obs, meta):
    v = verdicts.get(o["id"])
    if v is None:
      continue
    nlarge += bool(o["external"])
    bad = [k for k in ("aligned", "inbounds", "disjoint", "selects", "fields", "interp") if not v[k]]
    if not bad:
      continue
    if has_zero and "F18" in kfs:
      chk.known("F18")
      continue
    chk.violation("%s false for %s" % ("/".join(bad), name), {"property": "C16", "case": name, "observation": o, "verdict": v})
  if nlarge == 0:
    chk.machinery("vacuous: the large-model path was never taken (hook missing?)")
  chk.cov.update({
      "states": r.distinct + ro.distinct, "transitions": r.generated + ro.generated, "traces_validated_against_impl": len(obs),
      "models_through_large_path": nlarge, "synthetic_layouts": sum(1 for m in meta if m[0].startswith("layout")),
      "random_quantized_models": sum(1 for m in meta if m[0].startswith("random")), "quantize_raised": nraise,
      "two_call_histories_on_one_quantizer": sum(1 for m in meta if m[0].startswith("history")),
      "design_invariants_violated": design_violated,
      "evaluations": len(obs), "distinct_nontrivial": nlarge,
      "rule": "model = synthetic layout (description length 0..39 x 0..3 zero-length constants x 4 lists of odd-sized constants) or a random "
              "quantized pipeline scenario; each serialised by both paths through quantize(); non-trivial = external buffers present",
      "samples": [dict(case=meta[i][0], observation=obs[i]) for i in (0, len(obs) - 1)] if obs else [],
      "impl_wall_s": round(time.time() - t0, 1), "exhaustive": False,
  })
  chk.assumptions += ["hook AI_EDGE_QUANTIZER_VERIF_LARGE_MODEL_THRESHOLD (guarded by AI_EDGE_QUANTIZER_VERIF=1) forces the large-model path",
                      "'selects the bytes the ordinary path embeds', 'other fields equal' and 'identical interpreter outputs' are raw observations (byte/hash equality)"]
  return chk.finish()


if __name__ == "__main__":
  sys.exit(main())
