#!/venv/bin/python
"""C01 / C02 / C03: well-formedness, skeleton + I/O contract, modes respected.

usage: graph_props.py C01|C02|C03 [--tier quick|thorough] [--seed N] [--replay file]
"""
import json
import os
import sys
import time

sys.path.insert(0, os.path.dirname(os.path.dirname(os.path.abspath(__file__))))
from harness import common  # pylint: disable=g-import-not-at-top

common.setup_env()
from harness import configs, pipecheck, rgen, synth  # pylint: disable=g-import-not-at-top

# property -> (design invariants, observed clauses that decide it, known-finding clause -> id)
PROPS = {
    "C01": dict(inv=["InvTopo", "InvWellFormed"], clauses=["inrange", "topo", "single", "names"], interp=True),
    "C02": dict(inv=["InvSkeleton"], clauses=["skelops", "skelten", "skelio", "skelnm", "skelsig", "skeltyp"], interp=False),
    "C03": dict(inv=["InvModes"], clauses=["modes"], interp=False),
}
KF_CLAUSE = {"kf7": "F7"}


def nontrivial(scn):
  """>= 1 operator in a quantised mode (something is retyped or inserted)."""
  return any(m["m"] != "NOQ" for ms in scn["mode"] for m in ms) or scn["inmode"]["m"] != "NOQ" or scn["outmode"]["m"] != "NOQ"


def judge(chk, prop, spec, results, verdicts, obs_index):
  """Observed-state verdicts -> violations."""
  nviol = 0
  for i, r in enumerate(results):
    if r.get("outcome") == "harness-error":
      chk.machinery("harness error on %s: %s" % (r["key"], r["why"]))
      continue
    if r.get("unreal") is not None:
      continue
    rep = {"property": prop, "scenario": r["scn"], "codes": r.get("codes"), "seed": r.get("seed", 0)}
    if r["outcome"] == "done" and r.get("parse_error"):
      # returned bytes that do not even parse as a model
      if prop == "C01":
        chk.violation("returned bytes do not parse as a TFLite model: %s" % r["parse_error"], dict(rep, clause="parse"))
      continue
    if r["outcome"] != "done":
      continue
    v = verdicts.get(obs_index.get(i))
    if v is None:
      chk.machinery("no TLC verdict for observation %s" % r["key"])
      continue
    for kfc, fid in KF_CLAUSE.items():
      if v.get(kfc) and prop == "C02":
        chk.known(fid)
    bad = [c for c in spec["clauses"] if not v[c]]
    kf27 = "F27" in {f["id"] for f in chk.kf.get("findings", [])} and f27(r["scn"])
    if bad == ["modes"] and kf27:
      chk.known("F27")
    elif bad:
      nviol += 1
      chk.violation("%s false on the observed output graph of scenario %s" % ("/".join(bad), r["key"]),
                    dict(rep, clause=bad, verdict=v))
    if spec["interp"] and r.get("interp") not in (None, "ok") and "is only defined for positive values" in str(r.get("interp")):
      # integer RSQRT rejects non-positive inputs at invoke time: a precondition of the kernel on the DATA fed by the
      # harness, not a property of the model returned; counted, never a violation
      chk.cov["interp_data_dependent"] = chk.cov.get("interp_data_dependent", 0) + 1
    elif spec["interp"] and r.get("interp") not in (None, "ok") and "F26" in {f["id"] for f in chk.kf.get("findings", [])} and f26(r["scn"], str(r["interp"])):
      chk.known("F26")
    elif spec["interp"] and r.get("interp") not in (None, "ok") and kf27 and str(r["interp"]).startswith("error:"):
      chk.known("F27")
    elif spec["interp"] and r.get("interp") not in (None, "ok"):
      chk.violation("interpreter: %s" % r["interp"], dict(rep, clause="interpreter", interp=r["interp"]))
  return nviol


def f26(scn, msg):
  """Known finding F26: the interpreter refuses, in batch_matmul.cc, a model that holds a BATCH_MATMUL with a constant FIRST operand
  quantised under dynamic range or under 16-bit static range."""
  if "batch_matmul.cc" not in msg or "lhs_data->type" not in msg:
    return False
  return any(o["kind"] == "BMMC" and (md["m"] == "DRQ" or (md["m"] == "SRQ" and md["a"] == "a16"))
             for sub, modes in zip(scn["subs"], scn["mode"]) for o, md in zip(sub["ops"], modes))


def f27(scn):
  """Known finding F27: a CONSTANT tensor that is also a graph output, under a recipe with a quantising OUTPUT rule: the virtual
  OUTPUT operator's parameters are written onto the constant without regard to the operators that read it."""
  return scn["outmode"]["m"] != "NOQ" and any(sub["trole"][t] in ("w", "c", "b") for sub in scn["subs"] for t in sub["gouts"])


DESIGN_INVS = ["InvTopo", "InvWellFormed", "InvSkeleton", "InvModes"]


def main():
  prop = sys.argv[1]
  args = common.parse_args(sys.argv[2:])
  spec = PROPS[prop]
  chk = common.Check(prop, "model_checking", args)
  if args.replay:
    return replay(chk, prop, spec, args)
  cfgs = configs.quick_configs() if args.tier == "quick" else configs.thorough_configs()
  states = trans = 0
  all_dumps = {}
  by_cfg = {}
  per_cfg = {}
  for name, consts in cfgs.items():
    # all four design-level invariants of the graph properties in one exploration (shared by C01 / C02 / C03 through the TLC cache)
    r, dumps = pipecheck.design_run("%s_%s" % (prop, name), consts, DESIGN_INVS, timeout=7200)
    states += r.distinct
    trans += r.generated
    per_cfg[name] = {"states": r.distinct, "transitions": r.generated, "terminal_scenarios": getattr(r, "dump_total", len(dumps)), "terminal_scenarios_kept_for_replay": len(dumps), "wall_s": round(r.wall, 1),
                     "reused_identical_tlc_run": bool(getattr(r, "cached", False))}
    if r.error or not r.finished or r.rc not in (0, 12):
      chk.machinery("TLC failed on %s (rc=%s): %s" % (name, r.rc, r.out[-600:]))
      continue
    if getattr(r, "dump_lines", 0) != getattr(r, "dump_parsed", 0):
      chk.machinery("TLC dump lines lost on %s" % name)
    if r.violated:
      # a design-level invariant violation is a statement about the MODEL of the code; it is reported as such and
      # decided on the implementation by the replay below (the failing scenario is among the dumped ones)
      chk.note("design-level: invariant %s violated in %s (see work/%s_%s/tlc.out)" % (",".join(r.violated), name, prop, name))
    for k, d in dumps.items():
      if k not in all_dumps:
        all_dumps[k] = d
        by_cfg.setdefault(name, []).append(k)
  # ---- spec -> code
  nreplay = 2500 if args.tier == "quick" else 24000
  # water-filling over the configs (small configs are replayed completely, the rest share the remaining budget)
  chosen, left, todo = [], nreplay, sorted(by_cfg, key=lambda n: len(by_cfg[n]))
  while todo:
    name = todo.pop(0)
    take = common.sample_keep(sorted(by_cfg[name]), max(0, left // (len(todo) + 1)), args.seed)
    chosen += take
    left -= len(take)
  items = [dict(scn=all_dumps[k]["scn"], dump=all_dumps[k], seed=args.seed, interp=spec["interp"], tag="tlc") for k in chosen]
  # ---- random larger graphs (no prediction; judged by the predicates only)
  nrand = 400 if args.tier == "quick" else 4000
  rand = [rgen.gen(args.seed * 1000003 + i, 3, 9 if args.tier == "thorough" else 7, nsub=1 if i % 5 else 2) for i in range(nrand)]
  rand += [rgen.gen_fanout(args.seed * 13 + i) for i in range(10 if args.tier == "quick" else 200)]      # one weight, 9-12 readers in two groups
  rand += rgen.const_output_family()
  rand += [rgen.gen_const_output(args.seed * 19 + i) for i in range(40 if args.tier == "quick" else 150)]   # a constant that is also a graph output
  # the specification's machine is run on them too (PipelineFrom.tla): design invariants + a predicted terminal state each
  rf, rdumps = pipecheck.design_run_from("%s_random" % prop, rand, spec["inv"], timeout=7200)
  states += rf.distinct
  trans += rf.generated
  if rf.error or rf.rc not in (0, 12):
    chk.machinery("TLC failed on PipelineFrom: %s" % rf.out[-600:])
  if rf.violated:
    chk.note("design-level: invariant %s violated on a random graph (see work/%s_random/tlc.out)" % (",".join(rf.violated), prop))
  per_cfg["random_from"] = {"states": rf.distinct, "transitions": rf.generated, "terminal_scenarios": len(rdumps), "wall_s": round(rf.wall, 1)}
  for i, scn in enumerate(rand):
    key = synth.scn_key({k: scn[k] for k in ("subs", "mode", "inmode", "outmode")})
    items.append(dict(scn=scn, dump=rdumps.get(key), seed=args.seed + i, interp=spec["interp"], tag="random"))
  # ---- the repository's fixture models x the recipe files, with the specification run on the extracted scenario
  fitems = pipecheck.fixture_items(spec["interp"])
  if fitems:
    rx, fdumps = pipecheck.design_run_from("%s_fixtures" % prop, [it["scn"] for it in fitems], spec["inv"], timeout=3600)
    states += rx.distinct
    trans += rx.generated
    if rx.error or rx.rc not in (0, 12):
      chk.machinery("TLC failed on the fixture scenarios: %s" % rx.out[-600:])
    per_cfg["fixtures_from"] = {"states": rx.distinct, "transitions": rx.generated, "terminal_scenarios": len(fdumps), "wall_s": round(rx.wall, 1)}
    for it in fitems:
      it["dump"] = fdumps.get(synth.scn_key({k: it["scn"][k] for k in ("subs", "mode", "inmode", "outmode")}))
    items += fitems
  # a quarter of the synthesised models carry a second signature def (alias key) for subgraph 0
  import zlib
  for it in items:
    if it.get("tag") in ("tlc", "random") and zlib.crc32(json.dumps(it["scn"].get("subs"), sort_keys=True).encode()) % 4 == 0:
      it["scn"] = dict(it["scn"], sigalias=True)
  t0 = time.time()
  results = pipecheck.run_impl_many(items, args.procs)
  for it, r in zip(items, results):
    r["scn"] = it["scn"]
    r["seed"] = it["seed"]
  t_impl = time.time() - t0
  # ---- code -> spec
  obs, obs_index = [], {}
  for i, r in enumerate(results):
    if r.get("obs") is not None:
      obs.append(r["obs"])
      obs_index[i] = len(obs)
  verdicts, ro = pipecheck.observe_with_tlc("%s_observed" % prop, obs)
  if ro is not None and (ro.error or len(verdicts) != len(obs)):
    chk.machinery("Observed.tla run failed: %d verdicts for %d observations: %s" % (len(verdicts), len(obs), ro.out[-500:]))
  judge(chk, prop, spec, results, verdicts, obs_index)
  # ---- step-level trace validation of the performer's hook events (PipelineTrace.tla)
  # (run once, under C01: C02 / C03 replay the same executions and would repeat the identical validation)
  nacc, rejected, rt = pipecheck.validate_traces("%s_traces" % prop, results) if prop == "C01" else (0, [], None)
  nev = sum(len(r.get("events") or []) for r in results)
  if rt is not None and (rt.error or rt.rc not in (0, 12)):
    chk.machinery("PipelineTrace run failed: %s" % rt.out[-600:])
  if nev == 0 and prop == "C01":
    chk.note("hook H2 silent (no performer events): step-level validation skipped, final-state validation only")
  for i, v in rejected[:10]:
    chk.note("spec-drift trace of scenario %s rejected after %s of %s events (spec at %s)" % (results[i]["key"], v.get("consumed"), v.get("len"), v.get("pc")))
  if rt is not None:
    states += rt.distinct
    trans += rt.generated
  # ---- drift (implementation-shaped part of the spec) and statistics
  drift = [r for r in results if r.get("diffs")]
  for r in drift[:10]:
    chk.note("spec-drift scenario %s: %s" % (r["key"], "; ".join(r["diffs"])[:300]))
  outcomes = {}
  for r in results:
    k = "unrealisable" if r.get("unreal") is not None else "%s:%s:%s" % (r["tag"].split(":")[0], r["outcome"], r["why"] if r["outcome"] == "raised" else "")
    outcomes[k] = outcomes.get(k, 0) + 1
  nt = sum(1 for r in results if r.get("unreal") is None and nontrivial(r["scn"]))
  returned = sum(1 for r in results if r["outcome"] == "done")
  if returned == 0:
    chk.machinery("vacuous run: quantize() never returned a model")
  chk.cov.update({
      "states": states, "transitions": trans,
      "traces_validated_against_impl": len(verdicts),
      "spec_to_code_replays": sum(1 for r in results if r.get("diffs") is not None),
      "spec_to_code_exact_agreement": sum(1 for r in results if r.get("diffs") == []),
      "spec_drift": len(drift),
      "step_level_traces_accepted": nacc, "step_level_traces_rejected": len(rejected), "hook_events_validated": nev,
      "float_models_that_do_not_run_themselves": sum(1 for r in results if r.get("float_model_does_not_run")),
      "random_larger_graphs": sum(1 for r in results if r["tag"] == "random" and r.get("unreal") is None),
      "fixture_model_x_recipe_pairs": sum(1 for r in results if r["tag"].startswith("fixture")),
      "terminal_scenarios_enumerated": sum(v.get("terminal_scenarios", 0) for k, v in per_cfg.items() if k not in ("random_from", "fixtures_from")),
      "evaluations": len(results), "distinct_nontrivial": nt,
      "rule": "scenario = (float graph, mode per op, I/O modes); enumerated exhaustively by TLC within each config's bound, "
              "plus seeded random graphs of 3-9 ops; distinct by canonical scenario JSON; non-trivial = at least one operator "
              "or the model I/O is in a quantised mode",
      "exhaustive": len(chosen) == sum(v.get("terminal_scenarios", 0) for k, v in per_cfg.items() if k not in ("random_from", "fixtures_from")),
      "configs": per_cfg, "outcomes": outcomes, "impl_wall_s": round(t_impl, 1),
      "observed_clauses": spec["clauses"], "design_invariants": DESIGN_INVS,
      "samples": [dict(scenario=r["scn"], outcome=r["outcome"], why=r["why"], concrete_ops=r.get("codes")) for r in results[:2] + results[-2:]],
  })
  if prop == "C01":
    # the one transformation outside Pipeline.tla's vocabulary: the block-wise (emulated sub-channel) replacement of FULLY_CONNECTED
    from checks import subchannel
    sc = subchannel.run(chk, args)
    chk.cov.update(sc)
    chk.cov["states"] += sc.get("subchannel_states", 0)
    chk.cov["traces_validated_against_impl"] += sc.get("subchannel_graphs_judged", 0)
  chk.assumptions += [
      "TLC, the flatbuffer object API (synthesis and projection) and the LiteRT interpreter are trusted",
      "spec->code replays use injected generic statistics (structural parameter equality = numeric equality)",
      "bounded: graphs up to the configs' MaxOps exhaustively; larger graphs only sampled",
  ]
  return chk.finish()


def replay(chk, prop, spec, args):
  rep = json.load(open(args.replay))
  item = dict(scn=rep["scenario"], dump=None, seed=rep.get("seed", 0), interp=spec["interp"], tag="replay")
  if rep.get("codes"):
    item["scn"] = dict(item["scn"], codes=rep["codes"])
  results = pipecheck.run_impl_many([item], 1)
  results[0]["scn"] = item["scn"]
  obs, idx = [], {}
  if results[0].get("obs") is not None:
    obs.append(results[0]["obs"])
    idx[0] = 1
  verdicts, _ = pipecheck.observe_with_tlc("%s_replay" % prop, obs)
  print("outcome:", results[0]["outcome"], results[0]["why"], "verdict:", verdicts.get(1))
  judge(chk, prop, spec, results, verdicts, idx)
  chk.cov.update({"states": 1, "transitions": 1, "traces_validated_against_impl": len(verdicts), "samples": [rep["scenario"]]})
  return chk.finish()


if __name__ == "__main__":
  sys.exit(main())
