#!/venv/bin/python
"""C14: calibrate/quantize/validate are pure: no input mutation, no history dependence.

design    : TLC explores spec/Api.tla (all interleavings of load recipe / calibrate / quantize / validate on one or two
            Quantizers sharing calibration results) and checks ArgsUntouched and OutputIsFunction
spec->code: every emitted transition (a concrete history) is executed on real objects; after EVERY call the caller-owned
            objects (model bytes, recipe lists, datasets, all calibration results) are compared with deep-equality
            snapshots, the outcome (ok / empty / raises) is compared with the prediction, and the bytes returned by
            quantize() are compared with those of a FRESH Quantizer given equal arguments; a sample is re-run in fresh
            processes under PYTHONHASHSEED 0, 1 and random.
"""
import concurrent.futures as cf
import copy
import hashlib
import json
import os
import pickle
import subprocess
import sys
import tempfile
import time

sys.path.insert(0, os.path.dirname(os.path.dirname(os.path.abspath(__file__))))
from harness import common  # pylint: disable=g-import-not-at-top

common.setup_env()
from harness import synth, tlc  # pylint: disable=g-import-not-at-top
import numpy as np  # pylint: disable=g-import-not-at-top

NOQ = {"m": "NOQ", "a": "-", "w": "-"}
SUB = {"ops": [{"kind": "FC", "ins": [0, 1, 2], "outs": [3]}, {"kind": "FIXT", "ins": [3], "outs": [4]},
               {"kind": "SAMEIN1", "ins": [4, 5], "outs": [6]}, {"kind": "EW2", "ins": [6, 0], "outs": [7]}],
       "trole": ["act", "w", "b", "act", "act", "aux", "act", "act"], "gins": [0], "gouts": [7]}
SCN = {"subs": [SUB], "mode": [[NOQ] * 4], "inmode": NOQ, "outmode": NOQ, "codes": [["FULLY_CONNECTED", "TANH", "RESHAPE", "ADD"]]}


def recipes():
  act = {"num_bits": 8, "symmetric": False, "granularity": "TENSORWISE", "dtype": "INT", "block_size": 0}
  w = {"num_bits": 8, "symmetric": True, "granularity": "CHANNELWISE", "dtype": "INT", "block_size": 0}
  srq = {"activation_tensor_config": act, "weight_tensor_config": w, "compute_precision": "INTEGER", "explicit_dequantize": False, "skip_checks": False}
  act16 = dict(act, num_bits=16, symmetric=True)
  srq16 = dict(srq, activation_tensor_config=act16)
  # (tensor-wise weights here, channel-wise in the static recipes: a calibration result made under RA / RB holds per-channel weight
  # statistics, so whatever quantize() under RC writes into the caller's object differs from what is there)
  wt = dict(w, granularity="TENSORWISE")
  drq = {"weight_tensor_config": wt, "compute_precision": "INTEGER", "explicit_dequantize": False, "skip_checks": False}
  rule = lambda rx, op, cfg: {"regex": rx, "operation": op, "algorithm_key": "min_max_uniform_quantize", "op_config": copy.deepcopy(cfg)}
  return {
      "RA": [rule(".*", "*", srq)],                                             # everything static: TANH and RESHAPE write statistics
      # static, but no same-scale / fixed-range operator; the model input feeds the 8-bit FULLY_CONNECTED and the 16-bit ADD, so two
      # QUANTIZE ops are inserted on one float tensor and the second new tensor's name clashes with the first (..._quantized_1)
      "RB": [rule(".*", "FULLY_CONNECTED", srq), rule(".*", "ADD", srq16)],
      # dynamic range: no calibration; plus a no_quantize rule written the short way, without an 'op_config' key (legal for no_quantize)
      "RC": [rule(".*", "FULLY_CONNECTED", drq), {"regex": ".*", "operation": "ADD", "algorithm_key": "no_quantize"}],
  }


# recipe ids the store can hold (RBfc = what is left of RB when its ADD rule is refused under the restricted policy)
MAXCALS = 2      # Api.tla's MaxCals
NEEDS_CAL = {"RA": True, "RB": True, "RBfc": True, "RC": False}
POLICIES = ["P0", "P1"]      # P0 = the default policy; P1 = static a8w8 only for FULLY_CONNECTED / INPUT / OUTPUT (+ dynamic FC)
LOAD_OUTCOME = {("RA", "P0"): ("ok", "RA"), ("RA", "P1"): ("ok", "RA"), ("RB", "P0"): ("ok", "RB"), ("RB", "P1"): ("raise", "RBfc"),
                ("RC", "P0"): ("ok", "RC"), ("RC", "P1"): ("ok", "RC")}
# statistics are kept per TENSOR: the runtime tensors whose statistics a recipe needs (and calibration under it records) under each
# policy. FC reads t0 writes t3; TANH t3 -> t4; RESHAPE t4 -> t6; ADD (t6, t0) -> t7; the model input / output are t0 / t7.
_T = {"FC": ["t0", "t3"], "TANH": ["t3", "t4"], "RESHAPE": ["t4", "t6"], "ADD": ["t6", "t0", "t7"], "IO": ["t0", "t7"]}
_ops = {("RA", "P0"): ["FC", "TANH", "RESHAPE", "ADD", "IO"], ("RA", "P1"): ["FC", "IO"], ("RB", "P0"): ["FC", "ADD"], ("RB", "P1"): ["FC"],
        ("RBfc", "P0"): ["FC"], ("RBfc", "P1"): ["FC"], ("RC", "P0"): [], ("RC", "P1"): []}
STATS_OF = {k: sorted({t for o in v for t in _T[o]}) for k, v in _ops.items()}
WRITES = {("RA", "P0"): True}


def policy_files(write=False):
  """P0: the library's default policy; P1: static int8 only for FULLY_CONNECTED and the model I/O, dynamic int8 for FULLY_CONNECTED."""
  from ai_edge_quantizer import default_policy
  d = os.path.join(tlc.WORK, "policies")
  p0, p1f = os.path.join(d, "P0.json"), os.path.join(d, "P1.json")
  if not write:
    return {"P0": p0, "P1": p1f}
  os.makedirs(d, exist_ok=True)
  open(p0, "w").write(default_policy.DEFAULT_JSON_POLICY)
  full = json.loads(default_policy.DEFAULT_JSON_POLICY)
  p1 = {"configs": {k: full["configs"][k] for k in ("static_wi8_ai8", "dynamic_wi8_afp32")},
        "ops_per_config": {"static_wi8_ai8": ["FULLY_CONNECTED", "INPUT", "OUTPUT"], "dynamic_wi8_afp32": ["FULLY_CONNECTED"]}}
  json.dump(p1, open(p1f, "w"))
  return {"P0": p0, "P1": p1f}


def deep_equal(a, b):
  if isinstance(a, dict):
    return isinstance(b, dict) and list(a.keys()) == list(b.keys()) and all(deep_equal(a[k], b[k]) for k in a)
  if isinstance(a, (list, tuple)):
    return isinstance(b, (list, tuple)) and len(a) == len(b) and all(deep_equal(x, y) for x, y in zip(a, b))
  if isinstance(a, np.ndarray) or isinstance(b, np.ndarray):
    a, b = np.asarray(a), np.asarray(b)
    return a.dtype == b.dtype and a.shape == b.shape and np.array_equal(a, b, equal_nan=True)
  return a == b and type(a) == type(b)  # pylint: disable=unidiomatic-typecheck


def make_world(seed):
  model, info = synth.build(SCN, seed)
  rng = np.random.default_rng(seed + 5)
  data = {d: [{"x0": (rng.normal(size=(1, 2, 2, 4)) * (1 + i)).astype(np.float32)} for i in range(2)] for d in ("D1", "D2")}
  data["D0"] = []      # a dataset without samples
  return model, info, data


_W = {}


def _winit():
  common.setup_env()
  from absl import logging as alog
  alog.set_verbosity(alog.ERROR)


def _mb(model):
  return model if isinstance(model, str) else bytes(model)


def fresh_quantize(model, recipe, cal, pol=None, current=None):
  """Bytes of a FRESH Quantizer given equal arguments under the policy currently in force. (The rule list is installed
  under the default policy, which accepts every rule of these recipes, then the current policy is restored: a store that
  was filled before a policy change cannot be re-created by loading under the new policy.)"""
  from ai_edge_quantizer import quantizer
  if pol is not None:
    quantizer.Quantizer(_mb(model)).load_config_policy(pol["P0"])
  try:
    q = quantizer.Quantizer(_mb(model), copy.deepcopy(recipe))
  finally:
    if pol is not None:
      quantizer.Quantizer(_mb(model)).load_config_policy(pol[current])
  return bytes(q.quantize(copy.deepcopy(cal)).quantized_model)


def _replay(item):
  from ai_edge_quantizer import quantizer
  trans, seed, model_kind = item
  model0, info, data0 = make_world(seed)
  world = {"model": bytearray(model0) if model_kind == "bytearray" else bytes(model0), "recipes": recipes(), "data": data0, "cals": [], "results": []}
  import shutil
  folder = tempfile.mkdtemp(prefix="c14_save_")
  if model_kind == "path":
    # the model handed over as a file path: the caller-owned object is the file (compared through `model_file`)
    world["model"] = os.path.join(folder, "float_model_in.tflite")
    open(world["model"], "wb").write(model0)
    world["model_file"] = bytes(model0)
  snaps = copy.deepcopy(world)
  qs = {}
  problems = []
  nq = 0
  hist = trans["hist"]
  pol = policy_files()
  quantizer.Quantizer(world["model"]).load_config_policy(pol["P0"])      # every history starts under the default policy
  try:
    return _replay_steps(trans, world, snaps, qs, problems, hist, pol, folder)
  finally:
    quantizer.Quantizer(world["model"]).load_config_policy(pol["P0"])
    shutil.rmtree(folder, ignore_errors=True)


def _folder_state(folder):
  return {f: open(os.path.join(folder, f), "rb").read() for f in sorted(os.listdir(folder))}


def _replay_steps(trans, world, snaps, qs, problems, hist, pol, folder):
  from ai_edge_quantizer import quantizer
  nq = 0
  cur_pol = ["P0"]
  kept = []        # the first MaxRes results: dict(obj, bytes, recipe, cal, pol)
  for step, act in enumerate(hist):
    kind, qi = act[0], act[1]
    if qi not in qs:
      qs[qi] = quantizer.Quantizer(world["model"])
    q = qs[qi]
    got = "ok"
    try:
      if kind == "load":
        try:
          q.load_quantization_recipe(world["recipes"][act[2]])
        except ValueError:
          got = "raise:refused"
      elif kind == "policy":
        q.load_config_policy(pol[act[2]])
        cur_pol[0] = act[2]
      elif kind == "calibrate":
        prev = world["cals"][act[3] - 1] if act[3] else None
        if act[3] and act[3] > len(world["cals"]):
          return {"problems": [("harness", "bad prev index")], "nq": 0, "hist": hist}
        res = q.calibrate(world["data"][act[2]], previous_calibration_result=prev)
        if res == {} and not q.need_calibration:
          got = "empty"
          if len(world["cals"]) < MAXCALS:      # the {} is a caller-owned object too (kept while there is room, as in Api.tla)
            world["cals"].append(res)
            snaps["cals"].append(copy.deepcopy(res))
        else:
          world["cals"].append(res)
          snaps["cals"].append(copy.deepcopy(res))
      elif kind == "quantize":
        cal = world["cals"][act[2] - 1] if act[2] else None
        arg_now = copy.deepcopy(cal)
        result = q.quantize(cal)
        out = bytes(result.quantized_model)
        nq += 1
        if len(kept) < 2:
          kept.append({"obj": result, "bytes": out, "recipe": copy.deepcopy(result.recipe), "cal": arg_now, "pol": cur_pol[0]})
        ref = fresh_quantize(world["model"], q.get_quantization_recipe(), arg_now, pol, cur_pol[0])
        if out != ref:
          problems.append(("history-dependence", "step %d %s: bytes differ from a fresh Quantizer given equal arguments" % (step + 1, act)))
        if act[2]:
          ref2 = fresh_quantize(world["model"], q.get_quantization_recipe(), snaps["cals"][act[2] - 1], pol, cur_pol[0])
          if out != ref2:
            problems.append(("history-dependence", "step %d %s: bytes differ from quantizing the calibration result as it was returned" % (step + 1, act)))
      elif kind == "validate":
        q.validate()
      elif kind == "save":
        r, name = act[2], act[3]
        if r > len(kept):
          return {"problems": [("harness", "bad result index")], "nq": 0, "hist": hist}
        before = _folder_state(folder)
        try:
          kept[r - 1]["obj"].save(folder, name)
        except FileExistsError:
          got = "raise:exists"
          if _folder_state(folder) != before:
            problems.append(("save", "step %d %s: a refused save() changed the folder" % (step + 1, act[:-1])))
        if got == "ok":
          after = _folder_state(folder)
          k = kept[r - 1]
          want_files = set(before) | {name + ".tflite", name + "_recipe.json"}
          if set(after) != want_files or any(after[f] != before[f] for f in before):
            problems.append(("save", "step %d %s: files after save %s, expected %s (others untouched)" % (step + 1, act[:-1], sorted(after), sorted(want_files))))
          elif after[name + ".tflite"] != k["bytes"]:
            problems.append(("save", "step %d %s: saved model differs from the bytes quantize() returned" % (step + 1, act[:-1])))
          else:
            saved = json.loads(after[name + "_recipe.json"].decode())
            if saved != json.loads(json.dumps(k["recipe"])):
              problems.append(("save", "step %d %s: saved recipe is not the recipe the result was made under" % (step + 1, act[:-1])))
            else:
              # C12: the recipe written next to the model reproduces that model (same calibration result, same policy)
              again = fresh_quantize(world["model"], saved, k["cal"], pol, k["pol"])
              if cur_pol[0] != k["pol"]:
                quantizer.Quantizer(world["model"]).load_config_policy(pol[cur_pol[0]])
              if again != k["bytes"]:
                problems.append(("save", "step %d %s: the saved recipe does not reproduce the saved model" % (step + 1, act[:-1])))
      elif kind == "export":
        r, name = act[2], act[3]
        if r > len(kept):
          return {"problems": [("harness", "bad result index")], "nq": 0, "hist": hist}
        before = _folder_state(folder)
        kept[r - 1]["obj"].export_model(os.path.join(folder, name + ".tflite"))
        after = _folder_state(folder)
        if set(after) != set(before) | {name + ".tflite"} or any(after[f] != before[f] for f in before if f != name + ".tflite"):
          problems.append(("export", "step %d %s: files after export_model %s (only the model file may change)" % (step + 1, act[:-1], sorted(after))))
        elif after[name + ".tflite"] != kept[r - 1]["bytes"]:
          problems.append(("export", "step %d %s: exported model differs from the bytes quantize() returned" % (step + 1, act[:-1])))
    except RuntimeError as e:
      m = str(e)
      got = "raise:norecipe" if "without a quantization recipe" in m else "raise:nocal" if "QSVs) are required" in m else "raise:other:" + m[:80]
    except ValueError as e:
      m = str(e)
      got = "raise:missing" if ("not found in tensor_name_to_qsv" in m or "min and max must be provided" in m) else "raise:other:ValueError:" + m[:80]
    except Exception as e:  # pylint: disable=broad-except
      got = "raise:noresult" if kind == "validate" else "raise:other:%s:%s" % (type(e).__name__, str(e)[:80])
    # results returned earlier are frozen snapshots: later calls change neither their bytes nor their recipe
    for j, k in enumerate(kept):
      if bytes(k["obj"].quantized_model) != k["bytes"] or not deep_equal(k["obj"].recipe, k["recipe"]):
        problems.append(("result-mutated", "step %d %s modified the result returned by quantize() #%d" % (step + 1, act[:-1], j + 1)))
        k["bytes"], k["recipe"] = bytes(k["obj"].quantized_model), copy.deepcopy(k["obj"].recipe)
    if "model_file" in world:
      world["model_file"] = open(world["model"], "rb").read()
    # caller-owned objects untouched after every call
    for name in ("model", "model_file", "recipes", "data", "cals"):
      if name not in world:
        continue
      if not deep_equal(world[name], snaps[name]):
        problems.append(("input-mutated", "step %d %s modified caller-owned %s" % (step + 1, act, name)))
        snaps[name] = copy.deepcopy(world[name])
    if got != act[-1]:
      kindp = "outcome"
      if kind == "quantize" and not got.startswith("raise:other"):
        # C14 is about history-independence: what decides is whether a FRESH Quantizer given equal arguments behaves like this one.
        # If it does, the disagreement is between the implementation and the specification's outcome table (drift), not a violation.
        try:
          cal0 = world["cals"][act[2] - 1] if act[2] else None
          fresh_quantize(world["model"], q.get_quantization_recipe(), copy.deepcopy(cal0), pol, cur_pol[0])
          fresh = "ok"
        except RuntimeError as e:
          m = str(e)
          fresh = "raise:norecipe" if "without a quantization recipe" in m else "raise:nocal" if "QSVs) are required" in m else "raise:other"
        except ValueError as e:
          m = str(e)
          fresh = "raise:missing" if ("not found in tensor_name_to_qsv" in m or "min and max must be provided" in m) else "raise:other"
        except Exception:  # pylint: disable=broad-except
          fresh = "raise:other"
        if fresh == got:
          kindp = "drift"
      problems.append((kindp, "step %d %s: spec predicts %s, implementation %s" % (step + 1, act[:-1], act[-1], got)))
      break     # the two have diverged: later steps are not comparable
  return {"problems": problems, "nq": nq, "hist": hist}


def _stateful_replay(item):
  """History-independence on a STATEFUL model (a resource variable accumulates across invocations): every calibrate() result and
  every quantize() output of the history-laden Quantizer equals that of a fresh Quantizer given equal arguments."""
  from ai_edge_quantizer import quantizer
  hist, seed = item
  model = open(os.path.join(common.VERIF, "fixtures", "resource_variable_accumulator.tflite"), "rb").read()
  rng = np.random.default_rng(seed + 11)
  data = {d: [{"x": (rng.normal(size=(1, 4)) * (1 + i)).astype(np.float32)} for i in range(2)] for d in ("D1", "D2")}
  data["D0"] = []
  recs = recipes()
  q = quantizer.Quantizer(model)
  cals, problems, ncal = [], [], 0
  for step, act in enumerate(hist):
    kind = act[0]
    try:
      if kind == "load":
        q.load_quantization_recipe(copy.deepcopy(recs[act[2]]))
      elif kind == "calibrate":
        if act[3] > len(cals):
          return {"problems": [], "ncal": 0, "hist": hist}
        prev = cals[act[3] - 1] if act[3] else None
        res = q.calibrate(list(data[act[2]]), previous_calibration_result=copy.deepcopy(prev))
        if res == {} and not q.need_calibration:
          if len(cals) < MAXCALS:
            cals.append(res)
          continue
        cals.append(res)
        ncal += 1
        fresh = quantizer.Quantizer(model, copy.deepcopy(q.get_quantization_recipe())).calibrate(list(data[act[2]]), previous_calibration_result=copy.deepcopy(prev))
        if not deep_equal(res, fresh):
          problems.append(("history-dependence", "step %d %s: calibrate() differs from a fresh Quantizer given equal arguments" % (step + 1, act[:-1])))
      elif kind == "quantize":
        cal = cals[act[2] - 1] if act[2] and act[2] <= len(cals) else None
        out = bytes(q.quantize(copy.deepcopy(cal)).quantized_model)
        ref = bytes(quantizer.Quantizer(model, copy.deepcopy(q.get_quantization_recipe())).quantize(copy.deepcopy(cal)).quantized_model)
        if out != ref:
          problems.append(("history-dependence", "step %d %s: quantize() bytes differ from a fresh Quantizer given equal arguments" % (step + 1, act[:-1])))
    except Exception:  # pylint: disable=broad-except
      continue      # (raising calls are the main replay's subject)
  return {"problems": problems, "ncal": ncal, "hist": hist}


CHILD = r"""
import sys, pickle, hashlib, os, copy
sys.path.insert(0, sys.argv[2]); os.environ['TF_CPP_MIN_LOG_LEVEL']='3'
from absl import logging as alog; alog.set_verbosity(alog.ERROR)
from ai_edge_quantizer import quantizer
model, recipe, data = pickle.load(open(sys.argv[1], 'rb'))
q = quantizer.Quantizer(model, recipe)
cal = q.calibrate(data) if q.need_calibration else None
print('SHA', hashlib.sha256(bytes(q.quantize(cal).quantized_model)).hexdigest())
"""


def fresh_process_check(chk, seed, tier):
  """Equal arguments in fresh processes under different hash seeds give identical bytes."""
  model, info, data = make_world(seed)
  n = 0
  for rname, rec in recipes().items():
    with tempfile.NamedTemporaryFile(suffix=".pkl", delete=False) as f:
      pickle.dump((bytes(model), rec, data["D1"]), f)
      path = f.name
    shas = {}
    for hs in (["0", "1", "random"] if tier == "quick" else ["0", "1", "7", "random", "random"]):
      env = dict(os.environ, PYTHONHASHSEED=hs)
      p = subprocess.run(["/venv/bin/python", "-c", CHILD, path, common.REPO], stdout=subprocess.PIPE, stderr=subprocess.DEVNULL, text=True, env=env)
      sha = [l.split()[1] for l in p.stdout.splitlines() if l.startswith("SHA")]
      if not sha:
        chk.machinery("fresh-process run failed for %s" % rname)
        continue
      shas.setdefault(sha[0], []).append(hs)
      n += 1
    os.unlink(path)
    if len(shas) > 1:
      chk.violation("quantize() bytes differ across fresh processes / hash seeds for recipe %s: %s" % (rname, shas), {"property": "C14", "recipe": rname, "shas": shas})
  return n


def main():
  args = common.parse_args(sys.argv[2:])
  chk = common.Check("C14", "model_checking", args)
  fixes = ["qsvcopy"]
  maxlen = 4 if args.tier == "quick" else 5
  q = lambda s: '"%s"' % s
  pair = lambda k: "<<%s, %s>>" % (q(k[0]), q(k[1]))
  consts = dict(NQ="2", Recipes=tlc.tla_str_set(["RA", "RB", "RC"]), Policies=tlc.tla_str_set(POLICIES), Datasets=tlc.tla_str_set(["D1", "D2"]),
                MaxLen=str(maxlen), MaxCals=str(MAXCALS), Names=tlc.tla_str_set(["m1"]), EmptyData="{}",
                LoadOutcome="(" + " @@ ".join("%s :> <<%s, %s>>" % (pair(k), q(v[0]), q(v[1])) for k, v in LOAD_OUTCOME.items()) + ")",
                NeedsCal="(" + " @@ ".join("%s :> %s" % (q(r), tlc.tla_bool(v)) for r, v in NEEDS_CAL.items()) + ")",
                WritesStats="(" + " @@ ".join("%s :> %s" % (pair(k), tlc.tla_bool(WRITES.get(k, False))) for k in STATS_OF) + ")",
                StatsOf="(" + " @@ ".join("%s :> %s" % (pair(k), tlc.tla_str_set(v)) for k, v in STATS_OF.items()) + ")",
                Fixes=tlc.tla_str_set(fixes))
  r = tlc.run("C14_api", "Api", consts, invariants=["ArgsUntouched", "OutputIsFunction", "SavedPairOfOneResult"], constraints=["EmitH"], properties=["SaveNeverOverwrites"], view="View", workers=16, timeout=3600)
  # longer histories on ONE Quantizer under the default policy (a failed call in the middle, then by-the-book calls)
  deep = dict(consts, NQ="1", Policies=tlc.tla_str_set(["P0"]), Datasets=tlc.tla_str_set(["D1", "D0"]), EmptyData=tlc.tla_str_set(["D0"]), MaxLen=str(maxlen + 3))
  rd = tlc.run("C14_api_deep", "Api", deep, invariants=["ArgsUntouched", "OutputIsFunction"], constraints=["EmitH"], view="View", workers=16, timeout=3600)
  trans, trans_deep = {}, {}
  for rr, tr in ((r, trans), (rd, trans_deep)):
    if rr.error or rr.rc not in (0, 12):
      chk.machinery("TLC failed: %s" % rr.out[-800:])
      return chk.finish()
    if rr.violated:
      chk.violation("design-level: %s violated in Api.tla" % rr.violated, {"tlc": rr.out[-3000:]})
    for line in rr.printed("HIST"):
      try:
        t = json.loads(json.loads(line[line.index(",") + 1:line.rindex(">>")].strip()))
        if t["hist"]:
          tr[json.dumps(t["hist"])] = t
      except Exception:  # pylint: disable=broad-except
        pass
  policy_files(write=True)       # written once, read by the worker processes
  # strata: histories in which the process-global policy changes are kept apart so that they are never sampled away
  has_policy = lambda h: any(a[0] == "policy" for a in json.loads(h)[:-1])
  def resolved_before_policy(h):
    """the recipe was resolved (a calibrate / quantize that ran) before the policy changed, and a quantize() follows"""
    h = json.loads(h)
    ip = [k for k, a in enumerate(h) if a[0] == "policy"]
    return bool(ip) and any(a[0] in ("calibrate", "quantize") and a[-1] == "ok" for a in h[:ip[0]]) and any(a[0] == "quantize" for a in h[ip[0]:])
  pol_keys = sorted(k for k in trans if has_policy(k))
  keys = [k for k in pol_keys if resolved_before_policy(k)][:400 if args.tier == "quick" else 10**6]
  keys += common.sample_keep([k for k in pol_keys if k not in set(keys)], 250 if args.tier == "quick" else 8000, args.seed)
  keys += common.sample_keep(sorted(k for k in trans if not has_policy(k)), 300 if args.tier == "quick" else 8000, args.seed)
  # of the long histories, those that continue after a call that raised are the ones the short ones cannot reach
  after_fail = lambda h: any(a[-1].startswith("raise") for a in json.loads(h)[:-1])
  deep_keys = sorted(k for k in trans_deep if k not in trans and after_fail(k))
  keys_deep = common.sample_keep(deep_keys, 300 if args.tier == "quick" else 12000, args.seed)
  # histories in which a result is saved (also twice under one name, and after the recipe / policy has changed since)
  has_save = lambda h: any(a[0] in ("save", "export") for a in json.loads(h))
  save_keys = sorted(k for k in list(trans) + list(trans_deep) if has_save(k) and k not in keys and k not in keys_deep)
  # a refused save (the name exists) must leave the folder as it was: those histories are all kept
  refused_save = [k for k in save_keys if any(a[0] == "save" and a[-1] == "raise:exists" for a in json.loads(k))]
  keys_save = refused_save[:300 if args.tier == "quick" else 10**6] + common.sample_keep([k for k in save_keys if k not in set(refused_save)],
                                                                                     150 if args.tier == "quick" else 6000, args.seed)
  # export_model() onto a file that holds ANOTHER result's model (after save() or an earlier export): all kept
  def overwriting_export(h):
    m = {}
    for a in json.loads(h):
      if a[0] in ("save", "export") and a[-1] == "ok":
        if a[0] == "export" and m.get(a[3], a[2]) != a[2]:
          return True
        m[a[3]] = a[2]
    return False
  chosen_so_far = set(keys) | set(keys_deep) | set(keys_save)
  keys_export = [k for k in sorted(list(trans) + list(trans_deep)) if k not in chosen_so_far and overwriting_export(k)][:250 if args.tier == "quick" else 10**6]
  trans.update(trans_deep)
  keys = keys + keys_deep + keys_save + keys_export
  items = [(trans[k], args.seed, ("bytearray", "bytes", "path", "bytes")[i % 4]) for i, k in enumerate(keys)]
  t0 = time.time()
  results = []
  with cf.ProcessPoolExecutor(max_workers=args.procs, initializer=_winit) as ex:
    for out in ex.map(_replay, items, chunksize=8):
      results.append(out)
  nq = 0
  for out in results:
    nq += out["nq"]
    for kind, msg in out["problems"]:
      if kind == "harness":
        continue
      if kind == "drift":
        chk.note("spec-drift outcome %s (a fresh Quantizer given equal arguments behaves the same)" % msg)
        continue
      chk.violation("%s: %s" % (kind, msg), {"property": "C14", "history": out["hist"], "clause": kind})
  # stateful model: histories with at least two calibrate() calls on one Quantizer
  two_cal = sorted(k for k in trans_deep if sum(1 for a in json.loads(k) if a[0] == "calibrate") >= 2)
  sitems = [(json.loads(k), args.seed) for k in common.sample_keep(two_cal, 120 if args.tier == "quick" else 3000, args.seed)]
  nstate = 0
  with cf.ProcessPoolExecutor(max_workers=args.procs, initializer=_winit) as ex:
    for out in ex.map(_stateful_replay, sitems, chunksize=4):
      nstate += out["ncal"]
      for kind, msg in out["problems"]:
        chk.violation("%s (stateful model): %s" % (kind, msg), {"property": "C14", "history": out["hist"], "clause": kind, "model": "resource_variable_accumulator"})
  nproc = fresh_process_check(chk, args.seed, args.tier)
  chk.cov.update({
      "states": r.distinct + rd.distinct, "transitions": r.generated + rd.generated, "histories_continuing_after_a_raise": len(keys_deep), "histories_with_save": len([k for k in keys if has_save(k)]), "histories_with_overwriting_export": len([k for k in keys if overwriting_export(k)]), "traces_validated_against_impl": len(results), "transitions_emitted": len(trans),
      "quantize_calls_compared_with_fresh_quantizer": nq, "fresh_process_runs": nproc, "stateful_model_calibrations_compared_with_fresh_quantizer": nstate, "max_history": maxlen,
      "evaluations": len(results), "distinct_nontrivial": sum(1 for o in results if o["nq"] > 0),
      "rule": "history = sequence over {load R (3 recipes), load_config_policy (2 policies, process-global), calibrate(D, previous result), quantize(result), validate, "
              "result.save(name), result.export_model(name)} on 2 Quantizers sharing <= 2 calibration results and <= 2 kept results (length <= max_history), and on 1 Quantizer (length <= max_history + 3); "
              "every (reachable state incl. the outcome of the last failed call, action) transition emitted once by TLC; non-trivial = contains a quantize() that returns",
      "samples": [o["hist"] for o in results[:3]], "replay_wall_s": round(time.time() - t0, 1), "exhaustive": args.tier == "thorough",
  })
  chk.assumptions += ["deep equality of numpy arrays / dicts / bytes decides 'compare equal before and after'"]
  return chk.finish()


if __name__ == "__main__":
  sys.exit(main())
