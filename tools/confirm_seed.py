#!/usr/bin/env python3
"""usage: tools/confirm_seed.py <agent worktree> <seed id> <property> "<needs>"
Confirms a seeded change independently (fresh scratch worktree of /repo HEAD): with the patch the baseline passes and the
demonstration fails; without it the demonstration passes. Then stores it as /verif/seeded/<seed id>/."""
import json, os, shutil, subprocess, sys
src, sid, prop, needs = sys.argv[1], sys.argv[2], sys.argv[3], sys.argv[4]
VERIF = os.path.dirname(os.path.dirname(os.path.abspath(__file__)))
wt = "/tmp/confirm_%s" % sid
subprocess.run(["git", "-C", "/repo", "worktree", "remove", "--force", wt], stdout=subprocess.DEVNULL, stderr=subprocess.DEVNULL)
subprocess.run(["git", "-C", "/repo", "worktree", "add", "-q", "--detach", wt, "HEAD"], check=True)
env = dict(os.environ, PYTHONPATH=wt, TF_CPP_MIN_LOG_LEVEL="3")
env.pop("AI_EDGE_QUANTIZER_VERIF", None)
def demo():
  shutil.copy(os.path.join(src, "DEMO.py"), os.path.join(wt, "DEMO.py"))
  p = subprocess.run(["/venv/bin/python", "DEMO.py"], cwd=wt, env=env, stdout=subprocess.PIPE, stderr=subprocess.STDOUT, text=True)
  return p.returncode, p.stdout[-600:]
try:
  rc0, out0 = demo()
  print("demo without the change: rc=%d" % rc0)
  # the agent's own record of its change (worktrees share one git stash, so the working tree may have been swapped)
  if os.path.exists(os.path.join(src, "PATCH.diff")):
    patch = open(os.path.join(src, "PATCH.diff")).read()
  else:
    patch = subprocess.run(["git", "-C", src, "diff", "--", "ai_edge_quantizer"], stdout=subprocess.PIPE, text=True).stdout
  open("/tmp/confirm_%s.diff" % sid, "w").write(patch)
  subprocess.run(["git", "-C", wt, "apply", "-3", "/tmp/confirm_%s.diff" % sid], check=True)
  patch = subprocess.run(["git", "-C", wt, "diff", "HEAD", "--", "ai_edge_quantizer"], stdout=subprocess.PIPE, text=True).stdout
  rc1, out1 = demo()
  print("demo with the change:    rc=%d  %s" % (rc1, out1.strip().splitlines()[-1][:200] if out1.strip() else ""))
  b = subprocess.run(["/tmp/wt/baseline_check.py", wt], stdout=subprocess.PIPE, text=True)
  print(b.stdout.strip().splitlines()[0])
  ok = rc0 == 0 and rc1 != 0 and b.returncode == 0
  print("CONFIRMED" if ok else "NOT CONFIRMED")
  if ok:
    d = os.path.join(VERIF, "seeded", sid)
    os.makedirs(d, exist_ok=True)
    open(os.path.join(d, "patch.diff"), "w").write(patch)
    shutil.copy(os.path.join(src, "DEMO.py"), os.path.join(d, "demo.py"))
    if os.path.exists(os.path.join(src, "NOTES.md")):
      shutil.copy(os.path.join(src, "NOTES.md"), os.path.join(d, "NOTES.md"))
    head = subprocess.run(["git", "-C", "/repo", "rev-parse", "--short", "HEAD"], stdout=subprocess.PIPE, text=True).stdout.strip()
    json.dump({"id": sid, "property": prop, "needs": needs, "against_repo_commit": head, "author": "independent sub-agent (given only the property text and a scratch worktree)",
               "confirmed": {"baseline_519_pass_with_change": True, "demo_rc_without_change": rc0, "demo_rc_with_change": rc1,
                             "how": "tools/confirm_seed.py: fresh worktree of /repo HEAD, git apply patch.diff, /tmp/wt/baseline_check.py, demo.py with and without"},
               "checks": [prop]}, open(os.path.join(d, "meta.json"), "w"), indent=1)
finally:
  subprocess.run(["git", "-C", "/repo", "worktree", "remove", "--force", wt], stdout=subprocess.DEVNULL, stderr=subprocess.DEVNULL)
  os.path.exists("/tmp/confirm_%s.diff" % sid) and os.unlink("/tmp/confirm_%s.diff" % sid)
