#!/usr/bin/env python3
"""Runs the checks against every seeded change under /verif/seeded/<id>/ and records which check catches which.

For each seeded change a scratch git worktree of /repo is created under /tmp/seedrun/<id>, patch.diff is applied there,
the checks named in meta.json ("checks", default: the property it breaks) - or all of them with --all - are run with
VERIF_REPO pointing at the worktree (evidence / work / replay directories redirected so that the committed evidence is
not touched), and the worktree is removed. Writes seeded/README.md and seeded/results.json.
usage: tools/run_seeded.py [--all] [--only id,id] [--tier quick]
"""
import argparse, json, os, shutil, subprocess, sys, time

VERIF = os.path.dirname(os.path.dirname(os.path.abspath(__file__)))
SEEDED = os.path.join(VERIF, "seeded")


def main():
  ap = argparse.ArgumentParser()
  ap.add_argument("--all", action="store_true")
  ap.add_argument("--only", default="")
  ap.add_argument("--tier", default="quick")
  ap.add_argument("--seed", default="0")
  ap.add_argument("--shard", default="", help="i/n: run every n-th seeded change starting at i, writing results.shard<i>.json")
  ap.add_argument("--merge", action="store_true", help="merge results.shard*.json into results.json and write README.md")
  args = ap.parse_args()
  claimed = [c["property_id"] for c in json.load(open(os.path.join(VERIF, "MANIFEST.json")))["checks"]]
  results = {}
  respath = os.path.join(SEEDED, "results.json")
  if os.path.exists(respath):
    results = json.load(open(respath))
  ids = sorted(d for d in os.listdir(SEEDED) if os.path.isdir(os.path.join(SEEDED, d)))
  if args.only:
    ids = [i for i in ids if i in args.only.split(",")]
  if args.merge:
    import glob
    for f in sorted(glob.glob(os.path.join(SEEDED, "results.shard*.json"))):
      results.update(json.load(open(f)))
      os.remove(f)
    results = {k: v for k, v in results.items() if os.path.isdir(os.path.join(SEEDED, k))}
    json.dump(results, open(respath, "w"), indent=1)
    ids = []
  if args.shard:
    i, n = (int(x) for x in args.shard.split("/"))
    ids = ids[i::n]
    respath = os.path.join(SEEDED, "results.shard%d.json" % i)
    results = {}
  for sid in ids:
    d = os.path.join(SEEDED, sid)
    meta = json.load(open(os.path.join(d, "meta.json")))
    wt = "/tmp/seedrun/%s" % sid
    subprocess.run(["git", "-C", "/repo", "worktree", "remove", "--force", wt], stdout=subprocess.DEVNULL, stderr=subprocess.DEVNULL)
    shutil.rmtree(wt, ignore_errors=True)
    os.makedirs("/tmp/seedrun", exist_ok=True)
    subprocess.run(["git", "-C", "/repo", "worktree", "add", "-q", "--detach", wt, "HEAD"], check=True)
    try:
      ap = subprocess.run(["git", "-C", wt, "apply", os.path.join(d, "patch.diff")])
      if ap.returncode != 0:
        print("%s: patch.diff does not apply to /repo HEAD - re-generate it" % sid, flush=True)
        results.setdefault(sid, {"property": meta["property"], "runs": {}})["runs"] = {"-": {"rc": -1, "violations": 0, "first": "patch does not apply", "wall_s": 0, "tier": args.tier}}
        continue
      checks = claimed if args.all else meta.get("checks", [meta["property"]])
      out = results.setdefault(sid, {"property": meta["property"], "runs": {}})
      for p in checks:
        env = dict(os.environ, VERIF_REPO=wt, VERIF_EVIDENCE_DIR="/tmp/seedrun/ev_%s" % sid, VERIF_WORK_DIR="/tmp/seedrun/work_%s" % sid,
                   VERIF_REPLAYS_DIR="/tmp/seedrun/replays_%s" % sid,
                   VERIF_TLC_CACHE_DIR="/tmp/seedrun/tlc_cache")   # design-level TLC runs depend on /verif/spec only: shared by all seeds
        t0 = time.time()
        r = subprocess.run([os.path.join(VERIF, "check"), p, "--tier", args.tier, "--seed", args.seed], env=env, stdout=subprocess.PIPE, stderr=subprocess.STDOUT, text=True)
        viol = [l for l in r.stdout.splitlines() if l.startswith("VIOLATION")]
        out["runs"][p] = {"rc": r.returncode, "violations": len(viol), "first": viol[0][:300] if viol else "", "wall_s": round(time.time() - t0), "tier": args.tier}
        print("%s: check %s rc=%d violations=%d (%ds) %s" % (sid, p, r.returncode, len(viol), time.time() - t0, viol[0][:160] if viol else r.stdout.strip().splitlines()[-1][:160] if r.stdout.strip() else ""), flush=True)
    finally:
      subprocess.run(["git", "-C", "/repo", "worktree", "remove", "--force", wt], stdout=subprocess.DEVNULL, stderr=subprocess.DEVNULL)
      for x in ("ev_", "work_", "replays_"):
        shutil.rmtree("/tmp/seedrun/%s%s" % (x, sid), ignore_errors=True)
    json.dump(results, open(respath, "w"), indent=1)
  if args.shard:
    return
  # README table
  lines = ["# Seeded changes and the checks that catch them", "",
           "Each directory holds `patch.diff` (a change to /repo that breaks a property while the 519 baseline tests keep passing), the", 
           "demonstration that fails with it and passes without it, and `meta.json`. `tools/run_seeded.py` applies each patch in a scratch",
           "worktree and runs the checks against it (`VERIF_REPO`). rc 1 = VIOLATION reported (caught), rc 0 = missed, rc 2 = machinery failure.", "",
           "| seeded change | breaks | needs | caught by (quick tier) | not caught by |", "|---|---|---|---|---|"]
  for sid in sorted(results):
    mp = os.path.join(SEEDED, sid, "meta.json")
    if not os.path.exists(mp):
      continue
    meta = json.load(open(mp))
    runs = results[sid]["runs"]
    caught = ["%s (%d)" % (p, v["violations"]) for p, v in sorted(runs.items()) if v["rc"] == 1]
    missed = [p for p, v in sorted(runs.items()) if v["rc"] == 0 and p in meta.get("checks", [meta["property"]])]
    lines.append("| %s | %s | %s | %s | %s |" % (sid, meta["property"], meta.get("needs", "").replace("|", "/")[:160], ", ".join(caught) or "-", ", ".join(missed) or "-"))
  open(os.path.join(SEEDED, "README.md"), "w").write("\n".join(lines) + "\n")


if __name__ == "__main__":
  main()
