#!/usr/bin/env python3
"""Writes the prompt for a fresh sub-agent that seeds a defect for one property (round tag, property id).

The prompt contains ONLY the property's text (from properties.jsonl), the sandbox instructions and a one-line list of ideas
already taken (the seeded ids' own short names and trigger descriptions) - nothing about how /verif checks anything.
usage: tools/make_seed_prompt.py R4 C01  -> /tmp/wt/prompt_R4_C01.txt (and creates the worktree /tmp/wt/R4_C01)
"""
import json, os, subprocess, sys

VERIF = os.path.dirname(os.path.dirname(os.path.abspath(__file__)))
tag, pid = sys.argv[1], sys.argv[2]
prop = [json.loads(l) for l in open(os.path.join(VERIF, "properties.jsonl")) if json.loads(l)["id"] == pid][0]
wt = "/tmp/wt/%s_%s" % (tag, pid)
taken = []
for d in sorted(os.listdir(os.path.join(VERIF, "seeded"))):
  mp = os.path.join(VERIF, "seeded", d, "meta.json")
  if os.path.exists(mp):
    m = json.load(open(mp))
    if m["property"] == pid:
      taken.append("- %s (trigger: %s)" % (d.split("_", 1)[1].replace("_", " "), m.get("needs", "")))
anch = prop.get("anchors", {})
mech = "; ".join("%s (%s)" % (m.get("name"), m.get("where")) for m in anch.get("mechanism", []) if isinstance(m, dict))
text = open("/tmp/wt/prompt_R3_C01.txt").read() if False else None
P = f"""You are helping evaluate a verification framework for the open-source Python library google-ai-edge/ai-edge-quantizer (a post-training quantizer for LiteRT/TFLite flatbuffer models). Your job is to play a careless-but-plausible developer: introduce ONE realistic defect into the library that breaks the semantic property below while the library still imports and ALL of the existing tests keep passing.

## Your sandbox
- Your private git worktree of the library is at `{wt}` (work ONLY there; never touch /repo or /verif, and do not read anything under /verif).
- Python: `/venv/bin/python` with `PYTHONPATH={wt}` (the package is not installed; e.g. `cd {wt} && PYTHONPATH={wt} TF_CPP_MIN_LOG_LEVEL=3 /venv/bin/python your_script.py`). TensorFlow import takes ~10 s.
- To check that the existing test-suite still passes with your change: `/tmp/wt/baseline_check.py {wt}` (takes ~30-60 s; must print `0 missing` and exit 0).
- Example float models live in `{wt}/ai_edge_quantizer/tests/models/*.tflite`; recipes in `{wt}/ai_edge_quantizer/recipes/`. You can also build tiny models with the flatbuffer object API (`from ai_edge_litert import schema_py_generated`, `from tensorflow.lite.tools import flatbuffer_utils`).
- No network.

## The property (id {pid}): {prop['title']}
Statement: {prop['statement']}

Quantified over: {prop['quantifier']['text']}

Where the behaviour lives: {', '.join(anch.get('files', []))}
Mechanisms that are meant to make it hold: {mech}

## Already taken (do NOT repeat these ideas or close variants; choose a different mechanism, preferably in a different function or file, and prefer a defect that needs TWO cooperating sites or a multi-step history or an unusual-but-legal model structure or configuration)
{chr(10).join(taken) if taken else '- (none yet)'}

IMPORTANT: do not use `git stash` (the stash is shared between worktrees); to test the original code use `git -C {wt} apply -R PATCH.diff` and re-apply with `git -C {wt} apply PATCH.diff`.

## What to produce
1. A change to the library source (any non-test file under `{wt}/ai_edge_quantizer/`) that makes the property FALSE for some inputs / histories / configurations, but that
   - still imports, and keeps all 519 baseline tests passing (verify with the command above), and
   - is REALISTIC: the kind of slip a maintainer could make in a refactoring, an "optimisation", an off-by-one, a wrong condition, a dropped copy, a wrong default, etc. - not sabotage such as `if name == 'x': return garbage`.
   - needs something SPECIFIC to manifest - a particular graph topology, a multi-step sequence of API calls, an unusual (but legal) input, a particular configuration, or two cooperating sites that each look fine alone - rather than breaking every ordinary use at once. (If the simplest model with the simplest recipe already misbehaves, pick a subtler change.)
2. `{wt}/DEMO.py`: a small self-contained program that exits 0 on the ORIGINAL code and exits non-zero (assertion failure / printed explanation) WITH your change, demonstrating the broken property through the public API (Quantizer, calibrate, quantize, validate, recipe functions, or the documented helper functions).
3. `{wt}/PATCH.diff`: the output of `git -C {wt} diff -- ai_edge_quantizer` (source change only, not DEMO.py).
4. `{wt}/NOTES.md`: 5-10 lines: what you changed, why it is plausible, exactly what is needed for it to manifest, and how DEMO.py shows it.

Verify yourself before finishing: (a) with the change: baseline_check passes AND DEMO.py fails; (b) revert with `git apply -R PATCH.diff` -> DEMO.py passes -> re-apply. Report briefly what you did (the file/function changed and the trigger condition). Do exactly one change-set; do not commit.
"""
os.makedirs("/tmp/wt", exist_ok=True)
subprocess.run(["git", "-C", "/repo", "worktree", "remove", "--force", wt], stdout=subprocess.DEVNULL, stderr=subprocess.DEVNULL)
subprocess.run(["git", "-C", "/repo", "worktree", "add", "-q", "--detach", wt, "HEAD"], check=True)
open("/tmp/wt/prompt_%s_%s.txt" % (tag, pid), "w").write(P)
print("/tmp/wt/prompt_%s_%s.txt" % (tag, pid), len(taken), "taken")
