#!/usr/bin/env python3
"""Regenerates /verif/MANIFEST.json from the table below (single source of truth for claimed checks)."""
import json
import os
import subprocess

VERIF = os.path.dirname(os.path.dirname(os.path.abspath(__file__)))

PIPE_TEXT = ("TLC checks the property's predicates (GraphProps.tla) on every reachable state of Pipeline.tla - a model, action for "
             "action, of the materialiser, buffer-sharing check, instruction generator and performer - for all graphs within the "
             "configs' bounds; every dumped terminal state is replayed through the real quantize() and must agree exactly (outcome, "
             "raise site, operator list, wiring, dtypes, names, parameter classes); TLC then evaluates the same predicates on the "
             "states observed from the implementation (Observed.tla), including seeded larger random graphs. Bounded model checking "
             "plus conformance in both directions, not a proof.")
PIPE_NOTE = ("Trusted: TLC, the flatbuffer object API (synthesis and projection), the LiteRT interpreter (observations), numpy. "
             "Bounded exhaustiveness (<= 2-3 operators per config, 1-2 subgraphs) plus sampled larger graphs; spec->code replays use "
             "injected generic statistics.")

CHECKS = {
    "C01": dict(engine="pipeline", ref="4 C01", text=PIPE_TEXT + " The performer's hook events (one per applied instruction: operator list, outputs, id maps) are validated step by step against PipelineTrace.tla (trace acceptance), so every intermediate state of the rewrite is a state the specification allows. The one transformation that is not a QUANTIZE/DEQUANTIZE insertion - the block-wise (emulated sub-channel) replacement of FULLY_CONNECTED - has its own specification (Subchannel.tla: one action per replaced operator, C01's clauses from GraphWF.tla as invariants of every state); every terminal state is replayed (exact agreement of operators, wiring, names) and TLC (ObservedSubchannel.tla) evaluates the clauses on the returned graph. The last sentence of C01 (interpreter allocates and invokes) is an interpreter observation made in a forked child.", note=PIPE_NOTE + " Needs hook AI_EDGE_QUANTIZER_VERIF_TRACE (H2) for the step-level validation.",
                tech="TLA+ model checking (TLC) of Pipeline.tla + spec->code replay + step-level trace validation (PipelineTrace.tla) + TLC evaluation of GraphProps on observed states"),
    "C02": dict(engine="pipeline", ref="4 C02", text=PIPE_TEXT, note=PIPE_NOTE + " Known finding F7 (output renamed by an inserted Q/DQ) is excused clause-precisely by GraphProps!KF7.",
                tech="TLA+ model checking (TLC) of Pipeline.tla + spec->code replay + TLC evaluation of GraphProps!Skeleton on observed states"),
    "C03": dict(engine="pipeline", ref="4 C03", text=PIPE_TEXT, note=PIPE_NOTE,
                tech="TLA+ model checking (TLC) of Pipeline.tla + spec->code replay + TLC evaluation of GraphProps!ModesRespected on observed states"),
    "C04": dict(engine="pipeline", ref="4 C04", text=("The terminal state of every scenario of Pipeline.tla (enumerated by TLC, or the specification run on random graphs via PipelineFrom.tla) carries a symbolic parameter term per tensor; the harness resolves each term against on-grid statistics and constants, TLC (QuantMathExt.tla, exact rationals) computes the expected zero points and scales and judges the bytes the implementation stored; annotations are compared with TLC's values and TLC (Observed.tla) evaluates the relational clauses on the observed graph. ") + "C04: dtype, lengths, quantised dimension (table from the TFLite spec), zero point (exact; either neighbour on an exact tie TLC detects), scale (1e-6 relative), bias = input x weight scale, fixed ranges, ParamRelations (same-as-input / concatenation sharing).", note=PIPE_NOTE + " Statistics and constants on a dyadic grid; numpy trusted for per-channel min/max.",
                tech="TLA+ model checking (TLC): Pipeline.tla symbolic parameters + exact-rational reference QuantMathExt.tla + spec->code comparison of annotations"),
    "C05": dict(engine="pipeline", ref="4 C05", text=("The terminal state of every scenario of Pipeline.tla (enumerated by TLC, or the specification run on random graphs via PipelineFrom.tla) carries a symbolic parameter term per tensor; the harness resolves each term against on-grid statistics and constants, TLC (QuantMathExt.tla, exact rationals) computes the expected zero points and scales and judges the bytes the implementation stored; annotations are compared with TLC's values and TLC (Observed.tla) evaluates the relational clauses on the observed graph. ") + "C05: for every rewritten constant TLC checks byte length, int4 nibble order and padding, and the element-wise decode bound (step/2 symmetric, step asymmetric, + step/64 slack) on the stored bytes; bias codes against round_half_even(b/(s_in*s_w)); float16 constants byte-exact; when a run returns where the specification predicts a refusal, every rewritten constant is decoded by the same laws under the parameters the output itself carries.", note=PIPE_NOTE + " On-grid constants (float16 cast exact); bias codes above 2^20 get float32 slack.",
                tech="TLA+ model checking (TLC): exact-rational decode of observed bytes in QuantMathExt.tla"),
    "C15": dict(engine="pipeline", ref="4 C15", text=("The terminal state of every scenario of Pipeline.tla (enumerated by TLC, or the specification run on random graphs via PipelineFrom.tla) carries a symbolic parameter term per tensor; the harness resolves each term against on-grid statistics and constants, TLC (QuantMathExt.tla, exact rationals) computes the expected zero points and scales and judges the bytes the implementation stored; annotations are compared with TLC's values and TLC (Observed.tla) evaluates the relational clauses on the observed graph. ") + "C15: scenarios in which a constant tensor has several consumers or two tensors (same or different subgraphs) share a buffer, under every assignment of modes to the sharers: either quantize() raises (predicted raise site) or every referencing tensor's dtype/parameters agree with the stored bytes (decode per referencing tensor, under the tensor's own parameters when the run left the predicted path) and SharedConstOK holds on the observed graph; sampling is stratified per (operator modes, predicted outcome).", note=PIPE_NOTE,
                tech="TLA+ model checking (TLC) of Pipeline.tla (SharedConstOK, buffer-sharing check) + spec->code replay + exact-rational decode of shared buffers"),
    "C19": dict(engine="pipeline", ref="4 C19", text="TLC enumerates two-subgraph scenarios of Pipeline.tla and the specification's machine is run (PipelineFrom.tla) on each subgraph as a stand-alone scenario; SubgraphIndependent (terminal state of subgraph i inside the pair = terminal state of the stand-alone run, outcomes agree) is checked over these behaviours; the same comparison is made on the implementation (two-subgraph model vs extracted single-subgraph models, same recipe, same constants, statistics merged per subgraph): operators, wiring, dtypes, annotations and constant bytes equal; pairs that share a constant buffer (one subgraph reading it from two operators) are included, a refusal of such a pair being accepted only where the specification predicts the C15 refusal; TLC evaluates the graph predicates on the pair's result.",
                note=PIPE_NOTE + " SubgraphIndependent relates two behaviours: the pairing of TLC's terminal states is done by the harness.",
                tech="TLA+ model checking (TLC) of Pipeline.tla / PipelineFrom.tla with cross-behaviour comparison + spec->code replay"),
    "C06": dict(engine="pipeline", ref="4 C06", category="translation_validation",
                text="Structural half decided by TLC: for weight-only / float16 / dynamic-range scenarios (enumerated over Pipeline.tla, plus random graphs through PipelineFrom.tla) Skeleton, ModesRespected and SharedConstOK are evaluated on the observed output graph, i.e. the output program is the input program with each rewritten constant replaced by DEQUANTIZE(enc(c)) or an integer weight for a hybrid kernel. Execution half: the reference float model is rebuilt from the input flatbuffer and the constants decoded from the output bytes by an independent decoder, and both run in the reference interpreter on random inputs (weight-only/float16: 1e-4 relative; dynamic range: analytic bound of the runtime's dynamic 8-bit activation quantisation for operators between graph input and output).",
                note=PIPE_NOTE + " The equality of the two float executions is an interpreter observation, not a TLC deduction; deeper dynamic-range graphs are covered structurally only (counted in the evidence).",
                tech="TLA+ model checking (TLC) of the structural half + reference-model execution comparison (translation validation)"),
    "C08": dict(engine="pipeline", ref="4 C08", text="TLC explores Pipeline.tla under the mode map each of the 5 shipped recipes induces (read from the implementation's resolution of the unchanged JSON) and reports every may-raise terminal state; every enumerated graph and seeded random larger graphs are then run through the real API with the unchanged JSON recipe and real calibrate(); the observed return/raise decides.",
                note=PIPE_NOTE + " Known finding F20.", tech="TLA+ model checking (TLC) of Pipeline.tla (NeverRaises) + spec->code replay with the shipped recipe files"),
    "C11": dict(engine="recipe", ref="4 C11", text="Recipe.tla is the documented resolution model; TLC checks its structural invariants and action properties on every reachable store and emits every (store, letter) transition with the predicted accept/refuse, export and resolution table; each transition is replayed on a real RecipeManager (whole history on a fresh object, the resolution table read after every step, algorithm keys alternately as enum members and strings) and compared at every (operator, scope) pair; longer histories by TLC simulation.",
                note="Regex semantics are Python's re.search and the support table is read from the implementation (Matches/Supported are constants). Alphabet: 3 regexes x 3 selectors x 8 (config, algorithm) pairs; exhaustive to history length 2 (quick) / 3 (thorough), simulated to 10.",
                tech="TLA+ model checking (TLC) of Recipe.tla + transition-by-transition spec->code replay"),
    "C12": dict(engine="recipe", ref="4 C12", text="TLC checks RoundTrip (Load(Export(store)) = store) on every reachable store of Recipe.tla; for every emitted transition the real recipe is JSON round-tripped into a fresh manager and compared (recipe, resolution); sampled stores are quantized with the original and the reloaded recipe and compared byte for byte; every shipped recipe file is loaded and the default ones re-exported.",
                note="Same alphabet and bounds as C11; byte identity on one 3-operator model with injected statistics.",
                tech="TLA+ model checking (TLC) of Recipe.tla (RoundTrip) + spec->code replay"),
    "C09": dict(engine="calib", ref="4 C09", text="Calib.tla models Quantizer.calibrate() over resumed sessions with statistics kept symbolically as the sequence of folded sample ids; TLC checks ExactFold, Resumes, PrevUntouched and OnlySelected for every selection of operators, every split of the dataset into sessions and every choice of the result to resume from; every complete behaviour is replayed through the real calibrate() and each returned result must equal the moving average of the true per-sample min/max (harness's own interpreter) folded in the predicted order; previous results are compared before/after.",
                note="4 model shapes (chain, fc+add with a tensor mentioned twice, two inputs/two outputs, two signatures calibrated one at a time), sessions on empty datasets included, datasets of 3 (quick) / 4 (thorough) samples, up to 2 / 3 sessions. float32 moving average, tolerance 1e-5; samples scaled so that one dropped/duplicated/reordered sample moves the result far beyond it.",
                tech="TLA+ model checking (TLC) of Calib.tla + behaviour-by-behaviour spec->code replay with numeric comparison"),
    "C10": dict(engine="recipe", ref="4 C10", text="The scope strings the calibrator and the params generator compute for every operator of real models (converter-style names, one and two signatures) enter Recipe.tla as ScopePairs; TLC checks ScopesMatchAlike and SelectionAgrees over the stores reachable with ~45 regex patterns; then for every (model, regex, selector, config) the real calibrate() -> quantize() is run: never missing statistics, operators calibrated = operators quantised = operators the documented resolution selects on the quantization scope, per signature.",
                note="Regex semantics are Python's re.search; scope strings read from the components' own _get_op_scope. Single-rule recipes (histories of length 1-2).",
                tech="TLA+ model checking (TLC) of Recipe.tla (SelectionAgrees) + end-to-end spec->code replay"),
    "C13": dict(engine="policy", ref="4 C13", text="The full lattice (480 configs x 2 algorithms x 24 operator selectors) is enumerated against the real API; for every point the protocol events (construct / update / resolve under '*' / quantize / prepare / sane) are recorded and validated by TLC against Policy.tla (trace acceptance), which evaluates the C13 invariants on every observed trace: only ValueError, refusal leaves the store unchanged, '*' always accepts and skips unsupported pairs leaving the operator untouched, no accepted point fails later, and '*' applies a config to an operator exactly when an update naming the operator accepts it (StarConsistent) - also on a Quantizer whose '*' rule was replaced at every earlier lattice point. 'Runtime-sound' is an interpreter observation on a single-operator model calibrated and evaluated on the same inputs.",
                note="Soundness threshold: relative RMS error < 0.12 of the float output range (measured gap: sound <= 0.04, unsound >= 0.2). Known findings F15, F17.",
                tech="TLA+ trace validation (TLC) of observed protocol traces against Policy.tla over the exhaustively enumerated lattice"),
    "C14": dict(engine="api", ref="4 C14", text="Api.tla models call histories on two Quantizers sharing caller-owned calibration results (value terms, with the set of recipes that wrote into them); TLC checks ArgsUntouched and OutputIsFunction over all interleavings of load/load_config_policy/calibrate/quantize/validate/save/export_model up to the bound (the outcome of the last call that raised is part of the explored state, so continuations after a failed call are explored too); every emitted transition is executed on real objects: after every call all caller-owned objects are compared with deep-equality snapshots, the outcome of every call is compared with the prediction, quantize() bytes are compared with a fresh Quantizer given equal arguments; a sample is re-run in fresh processes under PYTHONHASHSEED 0/1/random.",
                note="One 4-operator model (FC, TANH, RESHAPE, ADD), 3 recipes chosen so that statistics side effects matter, 2 datasets, <= 2 calibration results, histories to length 4 (quick) / 5 (thorough) on two Quantizers with two policies, 7 / 8 on one Quantizer.",
                tech="TLA+ model checking (TLC) of Api.tla + transition replay on real objects with snapshots and fresh-object/fresh-process references"),
    "C16": dict(engine="serialize", ref="4 C16", text="Serialize.tla models the two-pass layout of _serialize_large_model (header of the final pass may shrink when a scalar field becomes default-valued); TLC checks Aligned/InBounds/Disjoint/PointsAtData; quantized models and synthetic layouts are serialised by both paths through the public quantize() (hook lowers the threshold) and the raw (offset,size,total) read with Model.GetRootAs are judged by TLC (ObservedSerialize.tla) together with byte-selection, field-equality and interpreter-equality observations; layouts are run with 8-bit and with packed 4-bit weights, and a large path that raises where the ordinary path returns is reported.",
                note="Needs hook AI_EDGE_QUANTIZER_VERIF_LARGE_MODEL_THRESHOLD. 3-4 buffers, sizes {none,0,1,15,16,17,33}, 32 header residues at design level; 224-640 synthetic layouts + random quantized models observed.",
                tech="TLA+ model checking (TLC) of Serialize.tla + TLC evaluation of layout invariants on observed (offset,size) tables"),
    "C18": dict(engine="validate", ref="4 C18", text="Validate.tla models the partition of the per-tensor comparison into inputs/outputs/constants/intermediates by successive pops with their KeyError sites; TLC checks PartitionOK and ReturnsForQuantizedPair over all name-set configurations; validate()/compare_model are run on generated models against their quantized versions and against themselves - the float model and the quantized one - (both metrics, every signature, every third case on the reference kernels); TLC (ObservedValidate.tla) judges the observed groups, values are compared with the metric computed from the harness's own two interpreter runs, metric laws on integer vectors.",
                note="4 names at design level; 160 (quick) / 1500 (thorough) observed comparisons. Value equality is an interpreter observation (1e-5 relative).",
                tech="TLA+ model checking (TLC) of Validate.tla + TLC evaluation of the partition on observed results"),
    "C17": dict(engine="quantmath", ref="4 C17", text="QuantMath.tla is an exact-rational reference of the quantisation arithmetic written from the TFLite spec; TLC checks the laws of C17 on it for every grid vector and emits expected values which the library's results must match (zero point exactly, either neighbour on an exact tie; scale within 3e-7); integer results observed from the library (all codes under parameters exactly as the library produces them, ascending inputs with outliers for 4, 8 and 16 bits, per-channel tensors) are judged by TLC (ObservedMath.tla).",
                note="Grids: ranges a/8 x b/8 (a,b <= 16 quick / 48 thorough), one-sided, tiny; bits 4/8/16; both symmetries; all codes for 4/8 bit. numpy float arithmetic trusted in the float-vs-rational comparison.",
                tech="TLA+ model checking (TLC) of an exact-rational reference + expected-value replay + TLC evaluation of integer laws on observed results"),
}

NA = {
    "C07": "numeric closeness of chained LiteRT integer kernels to float kernels is not a property of any state the quantizer has; TLC has no model of those kernels and an empirical tolerance would either miss errors or raise false alarms (DESIGN 4 C07). Its discrete preconditions are decided under C03/C04/C05/C13.",
}
PLANNED = []


def main():
  checks = []
  for p, c in CHECKS.items():
    checks.append({
        "property_id": p, "quick_cmd": "./check %s --tier quick" % p, "thorough_cmd": "./check %s --tier thorough" % p,
        "evidence_file": "/verif/evidence/%s.json" % p, "replay_cmd_template": "./check %s --replay {path}" % p, "engine": c["engine"],
        "level_claimed": {"category": c.get("category", "model_checking"), "text": c["text"], "design_ref": c["ref"]},
        "level_note": c["note"], "technique": c["tech"]})
  na = [{"property_id": p, "reason": r} for p, r in NA.items()]
  for p in PLANNED:
    if p not in CHECKS:
      na.append({"property_id": p, "reason": "check not built yet in this round (planned, see DESIGN 4); claimed once it exists"})
  hooks = subprocess.run(["git", "-C", "/repo", "log", "--format=%h %s", "--grep=^hook"], stdout=subprocess.PIPE, text=True).stdout.split("\n")
  m = {
      "version": 1,
      "setup_cmd": "true",
      "hooks": {"guard": "AI_EDGE_QUANTIZER_VERIF", "enable": "export AI_EDGE_QUANTIZER_VERIF=1 (the checks set it themselves)",
                "baseline_off_cmd": "/verif/tools/baseline_off.py", "source_commits": [h.split()[0] for h in hooks if h.strip()], "add_only": True},
      "engines": [
          {"name": "pipeline", "path": "/verif/spec/Pipeline.tla", "serves_properties": [p for p, c in CHECKS.items() if c["engine"] == "pipeline"],
           "kind_free_text": "TLA+ spec of materialiser / buffer check / instruction generator / performer + GraphProps predicates + Observed trace spec; Python conformance harness (harness/pipecheck.py)"},
          {"name": "subchannel", "path": "/verif/spec/Subchannel.tla", "serves_properties": ["C01"],
           "kind_free_text": "TLA+ spec of the emulated sub-channel (block-wise) replacement of FULLY_CONNECTED; GraphWF.tla (C01's clauses on a plain graph record); ObservedSubchannel.tla; replay in checks/subchannel.py"},
          {"name": "recipe", "path": "/verif/spec/Recipe.tla", "serves_properties": [p for p, c in CHECKS.items() if c["engine"] == "recipe"],
           "kind_free_text": "TLA+ spec of the recipe store and documented resolution; transition replay on RecipeManager"},
          {"name": "calib", "path": "/verif/spec/Calib.tla", "serves_properties": [p for p, c in CHECKS.items() if c["engine"] == "calib"],
           "kind_free_text": "TLA+ spec of calibrate() over resumed sessions (symbolic fold sequences); behaviour replay"},
          {"name": "api", "path": "/verif/spec/Api.tla", "serves_properties": ["C14"], "kind_free_text": "TLA+ spec of call histories over caller-owned objects; transition replay"},
          {"name": "serialize", "path": "/verif/spec/Serialize.tla", "serves_properties": ["C16"], "kind_free_text": "TLA+ spec of the two-pass external-buffer layout; ObservedSerialize.tla"},
          {"name": "validate", "path": "/verif/spec/Validate.tla", "serves_properties": ["C18"], "kind_free_text": "TLA+ spec of the comparison-result partition; ObservedValidate.tla"},
          {"name": "policy", "path": "/verif/spec/Policy.tla", "serves_properties": ["C13"], "kind_free_text": "TLA+ trace spec of the acceptance protocol of one lattice point; Registry.tla (the algorithm registry behind the acceptance decision) replayed state by state"},
          {"name": "quantmath", "path": "/verif/spec/QuantMath.tla", "serves_properties": [p for p, c in CHECKS.items() if c["engine"] == "quantmath"],
           "kind_free_text": "exact-rational TLA+ reference of the quantisation arithmetic; expected-value replay; ObservedMath.tla"},
      ],
      "checks": checks,
      "notes": "DESIGN.md explains the approach; known_findings.json lists recorded findings (KNOWN-FINDING lines) and repaired defects (fix: commits in /repo).",
      "not_applicable": na,
  }
  json.dump(m, open(os.path.join(VERIF, "MANIFEST.json"), "w"), indent=1)
  print("claimed:", sorted(CHECKS), "not applicable:", [x["property_id"] for x in na])


if __name__ == "__main__":
  main()
