#!/venv/bin/python
"""Binding / regression self-test of the specifications (not a verdict on /repo):
for every repaired defect the specification keeps the pre-repair behaviour behind a `Fixes` flag; with the flag
removed TLC must report the corresponding invariant (the model really expresses the defect), with it the invariant
holds. Also corrupts one recorded observation and checks that TLC's verdict on it turns false."""
import json, os, sys
sys.path.insert(0, os.path.dirname(os.path.dirname(os.path.abspath(__file__))))
from harness import common
common.setup_env()
from harness import configs, tlc, pipecheck

M = configs.M
ok = True


def expect(name, cond, detail=""):
  global ok
  print("%-70s %s %s" % (name, "ok" if cond else "FAILED", detail))
  ok = ok and cond


def pipeline_case(flag, invariant, kinds, mw, ma, io, nops=2, share="none", dump_pred=None):
  allf = list(configs.FIXES_NOW)
  for fixes, want in ((allf, False), ([f for f in allf if f != flag], True)):
    c = configs.cfg(nops, kinds, mw, ma, io, share=share, fixes=fixes)
    r, dumps = pipecheck.design_run("selftest_%s_%s" % (flag, "off" if want else "on"), c, [invariant] if invariant else [], dump=dump_pred is not None)
    got = (invariant in r.violated) if invariant else any(dump_pred(d) for d in dumps.values())
    expect("Pipeline flag %-7s %s: %s %s" % (flag, "absent " if want else "present", invariant or "raise site", "violated" if want else "holds"), got == want)


srq = [configs.NOQ, M("SRQ", "a8a", "w8c")]
pipeline_case("perf", "InvTopo", ["EW1", "EW2"], [configs.NOQ], srq, [configs.NOQ])
pipeline_case("sig", "InvSkeleton", ["EW1"], [configs.NOQ], srq, [configs.NOQ], nops=1)
pipeline_case("uniq", "InvWellFormed", ["EW1", "CONCAT"], [configs.NOQ], [configs.NOQ, M("SRQ", "a8a", "w8c"), M("SRQ", "a16", "w8c")], [configs.NOQ])
pipeline_case("concat", "InvBytes", ["CONCAT"], [configs.NOQ], srq, [configs.NOQ], nops=1)
pipeline_case("remove", None, ["FIXT", "EW2"], [configs.NOQ], [M("SRQ", "a8a", "w8c"), M("SRQ", "a16", "w8c")], [configs.NOQ],
              dump_pred=lambda d: d["pc"] == "raised" and d["why"] == "list_remove")
pipeline_case("aq", None, ["FIXT", "CONCAT", "EW2"], [configs.NOQ], [M("SRQ", "a8a", "w8c")], [M("SRQ", "a8a", "w8c")], nops=3,
              dump_pred=lambda d: d["pc"] == "raised" and d["why"] == "buffer_sharing" and not any(r == "c" for s in d["scn"]["subs"] for r in s["trole"]))

from harness import recipe
A = recipe.alphabet()
for fixes, want in ((["wcfg", "noqcfg"], False), (["noqcfg"], True), (["wcfg"], True)):
  consts, _ = recipe.tla_constants(A, 2, fixes)
  r = tlc.run("selftest_recipe", "Recipe", consts, invariants=["RoundTrip"], view="View", workers=8)
  expect("Recipe fixes %-20s RoundTrip %s" % (fixes, "violated" if want else "holds"), ("RoundTrip" in r.violated) == want)

for fixes, inv in ((["once"], ("PrevUntouched", "ExactFold", "Resumes")), (["deepcopy"], ("ExactFold",)), (["once", "shallow"], ("PrevUntouched", "ExactFold")),
                   (["once", "deepcopy"], ())):
  c = dict(Ops="<<[ins |-> <<0>>, outs |-> <<1>>, sub |-> 1], [ins |-> <<1, 0>>, outs |-> <<2>>, sub |-> 1], [ins |-> <<3>>, outs |-> <<4>>, sub |-> 2]>>",
           GIns="<< <<0>>, <<3>> >>", GOuts="<< <<2>>, <<4>> >>", NT="5", NSamples="2", MaxSessions="2", Fixes=tlc.tla_str_set(fixes))
  r = tlc.run("selftest_calib", "Calib", c, invariants=["ExactFold", "PrevUntouched"], workers=8)
  if inv:
    expect("Calib fixes %-20s one of %s violated" % (fixes, inv), any(i in r.violated for i in inv), str(r.violated))
  else:
    expect("Calib fixes %-20s all invariants hold" % fixes, not r.violated and not r.error, str(r.violated))

for fixes, want in ((["qsvcopy"], False), ([], True)):
  c = dict(NQ="2", Recipes='{"RA", "RB"}', Policies='{"P0"}', Datasets='{"D1"}', EmptyData='{}', Names='{"m1"}', MaxLen="4", MaxCals="2",
           LoadOutcome='(<<"RA", "P0">> :> <<"ok", "RA">> @@ <<"RB", "P0">> :> <<"ok", "RB">>)', NeedsCal='("RA" :> TRUE @@ "RB" :> TRUE)',
           WritesStats='(<<"RA", "P0">> :> TRUE @@ <<"RB", "P0">> :> FALSE)', StatsOf='(<<"RA", "P0">> :> {"FC", "TANH"} @@ <<"RB", "P0">> :> {"FC"})',
           Fixes=tlc.tla_str_set(fixes))
  r = tlc.run("selftest_api", "Api", c, invariants=["ArgsUntouched", "OutputIsFunction"], view="View", workers=8)
  expect("Api fixes %-12s ArgsUntouched %s" % (fixes, "violated" if want else "holds"), ("ArgsUntouched" in r.violated or "OutputIsFunction" in r.violated) == want)

for fixes, want in ((["realsize"], False), ([], True)):
  r = tlc.run("selftest_ser", "Serialize", dict(NBuf="3", Sizes="{-1, 0, 1, 17}", Hdrs="100..116", Fixes=tlc.tla_str_set(fixes)), invariants=["InBounds", "PointsAtData"], workers=8)
  expect("Serialize fixes %-12s layout invariants %s" % (fixes, "violated" if want else "hold"), bool(r.violated) == want)

# corrupt one observation: the verdict must turn false
from harness import pipeline, project
scn = {"subs": [{"ops": [{"kind": "EW1", "ins": [0], "outs": [1]}], "trole": ["act", "act"], "gins": [0], "gouts": [1]}],
       "mode": [[{"m": "SRQ", "a": "a8a", "w": "w8c"}]], "inmode": {"m": "NOQ", "a": "-", "w": "-"}, "outmode": {"m": "NOQ", "a": "-", "w": "-"}}
impl = pipeline.run_impl(scn)
o = pipeline.obs_record(1, scn, project.project(impl["in_bytes"]), project.project(impl["out_bytes"]))
good = json.loads(json.dumps(o))
bad = json.loads(json.dumps(o))
bad["R"][0]["ops"][0], bad["R"][0]["ops"][1] = bad["R"][0]["ops"][1], bad["R"][0]["ops"][0]     # swap two operators
bad2 = json.loads(json.dumps(o))
bad2["R"][0]["dt"][1] = "f32"                                                                    # corrupt one recorded dtype
v, _ = pipecheck.observe_with_tlc("selftest_obs", [good, bad, bad2])
expect("Observed: genuine observation accepted", all(v[1][c] for c in ("topo", "skelops", "modes")))
expect("Observed: swapped operators rejected (topo)", not v[2]["topo"])
expect("Observed: corrupted dtype rejected (modes)", not v[3]["modes"])
# step-level trace validation: a genuine hook trace is accepted, one corrupted field or one removed event rejects it
import os as _os
tp = _os.path.join(tlc.WORK, "selftest_trace.ndjson")
if _os.path.exists(tp):
  _os.unlink(tp)
_os.environ["AI_EDGE_QUANTIZER_VERIF_TRACE"] = tp
pp = _os.path.join(tlc.WORK, "selftest_plan.ndjson")
if _os.path.exists(pp):
  _os.unlink(pp)
_os.environ["AI_EDGE_QUANTIZER_VERIF_PLAN_TRACE"] = pp
scn2 = {"subs": [{"ops": [{"kind": "EW1", "ins": [0], "outs": [1]}, {"kind": "EW2", "ins": [1, 0], "outs": [2]}], "trole": ["act", "act", "act"], "gins": [0], "gouts": [1, 2]}],
        "mode": [[{"m": "SRQ", "a": "a8a", "w": "w8c"}, {"m": "NOQ", "a": "-", "w": "-"}]], "inmode": {"m": "NOQ", "a": "-", "w": "-"}, "outmode": {"m": "NOQ", "a": "-", "w": "-"}}
impl2 = pipeline.run_impl(scn2)
_os.environ.pop("AI_EDGE_QUANTIZER_VERIF_TRACE")
_os.environ.pop("AI_EDGE_QUANTIZER_VERIF_PLAN_TRACE")
ev = [json.loads(x) for x in open(tp)]
plan = [json.loads(x) for x in open(pp)][-1]
def res_of(events, pl=None):
  return {"events": events, "plan": plan if pl is None else pl, "scn": scn2, "outcome": impl2["outcome"], "key": "selftest"}
corrupt = json.loads(json.dumps(ev))
corrupt[-1]["omap"][0] += 1                      # one bookkeeping field off by one
badplan = json.loads(json.dumps(plan))
kp = [k for k, e in enumerate(badplan) if any(i[0] != "NO_QUANTIZE" for i in e["insts"])][0]
badplan[kp]["insts"][0][3] = badplan[kp]["insts"][0][3] + [0]          # one consumer too many in one planned instruction
nacc, rej, _ = pipecheck.validate_traces("selftest_traces", [res_of(ev), res_of(corrupt), res_of(ev[:-1]), res_of(ev, badplan)])
expect("PipelineTrace: genuine hook trace accepted; corrupted omap, missing event, corrupted plan rejected", nacc == 1 and sorted(i for i, _ in rej) == [1, 2, 3], "%d accepted, rejected %s" % (nacc, [i for i, _ in rej]))
for fixes, want in (('{"inout"}', False), ("{}", True)):
  rv = tlc.run("selftest_validate", "Validate", dict(Names='{"a", "b", "c"}', Fixes=fixes), invariants=["PartitionOK", "ReturnsForQuantizedPair"], workers=8)
  expect("Validate fixes %-10s ReturnsForQuantizedPair %s" % (fixes, "violated" if want else "holds"), ("ReturnsForQuantizedPair" in rv.violated) == want, str(rv.violated))
# the same for the calibrator's hook (H3) and CalibTrace.tla
import importlib.util as _iu
_spec = _iu.spec_from_file_location("calib_props", _os.path.join(_os.path.dirname(_os.path.dirname(_os.path.abspath(__file__))), "checks", "calib_props.py"))
cp = _iu.module_from_spec(_spec)
_spec.loader.exec_module(cp)
_, _, cc = cp.runtime_view(cp.MODELS["chain"])
cc.update(NSamples="2", MaxSessions="2", Fixes=tlc.tla_str_set(["deepcopy", "once"]))
rb = tlc.run("selftest_calib_beh", "Calib", cc, constraints=["EmitB"], workers=8)
behs = [json.loads(json.loads(line[line.index(",") + 1:line.rindex(">>")].strip())) for line in rb.printed("BEHAV")]
beh = [b for b in behs if all(b["sel"]) and b["selIn"] and b["selOut"] and b["base"][0][2] >= b["base"][0][1] and b["base"][1][0] == 1][0]
out = cp._replay(("chain", beh, 0, 2))
tr = out["trace"]
bad1 = json.loads(json.dumps(tr))
k_op = [k for k, e in enumerate(bad1["events"]) if e["ev"] == "op" and e["updated"]][0]
bad1["events"][k_op]["updated"] = bad1["events"][k_op]["updated"][:-1]      # one folded tensor not reported
bad2 = json.loads(json.dumps(tr))
del bad2["events"][k_op]                                                      # one operator event missing
tpj = _os.path.join(tlc.WORK, "selftest_calib_traces.json")
json.dump([tr, bad1, bad2], open(tpj, "w"))
rt = tlc.run("selftest_calib_trace", "CalibTrace", cc, constraints=["EmitT"], spec_name="TraceSpec", workers=4, env={"TRACE_FILE": tpj}, extends="CalibTrace")
acc = {}
for line in rt.printed("TVERDICT"):
  v = json.loads(json.loads(line[line.index(",") + 1:line.rindex(">>")].strip()))
  acc[v["ti"]] = acc.get(v["ti"], False) or v["accepted"]
expect("CalibTrace: genuine calibration trace accepted, corrupted 'updated' rejected, missing event rejected", acc == {1: True, 2: False, 3: False}, str(acc))
# Subchannel.tla: the invariants see a replaced operator that is not deleted; GraphWF's clauses see a corrupted observed graph
for bugs, want in (("{}", False), ('{"keep_fc"}', True)):
  rs = tlc.run("selftest_subchannel", "Subchannel", dict(MaxFC="1", Bugs=bugs, Acts='{"none", "relu", "relu6"}', Ranks="{2, 3}"), invariants=["InvWellFormed", "InvIO", "InvOthersKept", "InvOutputRewired", "InvCount", "InvOutcome"], workers=8)
  expect("Subchannel bugs %-12s InvWellFormed %s" % (bugs, "violated" if want else "holds"), ("InvWellFormed" in rs.violated) == want, str(rs.violated))
good = {"id": 1, "nt": 4, "ops": [{"code": "A", "ins": [0, 1], "outs": [2]}, {"code": "B", "ins": [2, -1], "outs": [3]}], "gins": [0], "gouts": [3], "consts": [1], "names": ["x", "w", "h", "y"]}
swapped = dict(good, id=2, ops=good["ops"][::-1])
twice = dict(good, id=3, ops=good["ops"] + [{"code": "C", "ins": [0], "outs": [3]}])
dup = dict(good, id=4, names=["x", "w", "h", "h"])
oob = dict(good, id=5, gouts=[4])
opj = _os.path.join(tlc.WORK, "selftest_graphwf.json")
json.dump([good, swapped, twice, dup, oob], open(opj, "w"))
rg = tlc.run("selftest_graphwf", "ObservedSubchannel", {}, constraints=["Emit"], workers=1, env={"OBS_FILE": opj})
vd = {v["id"]: v for v in rg.json_dumps("VERDICT")}
expect("GraphWF: good graph passes; swapped order / two producers / duplicate name / index out of range are each seen",
       len(vd) == 5 and all(vd[1].values()) and not vd[2]["topo"] and not vd[3]["single"] and not vd[4]["names"] and not vd[5]["inrange"], str({k: [c for c, x in v.items() if x is False] for k, v in vd.items()}))
print("SELFTEST", "PASSED" if ok else "FAILED")
sys.exit(0 if ok else 1)
