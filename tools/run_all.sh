#!/bin/bash
# tools/run_all.sh <seed> [tier] : runs every claimed check once, prints one line per check
cd "$(dirname "$0")/.."
mkdir -p work
SEED=${1:-0}; TIER=${2:-quick}
for P in $(python3 -c "import json; print(' '.join(c['property_id'] for c in json.load(open('MANIFEST.json'))['checks']))"); do
  s=$(date +%s)
  ./check $P --tier $TIER --seed $SEED > work/run_${P}_s${SEED}.log 2>&1; rc=$?
  e=$(date +%s)
  echo "$P seed=$SEED rc=$rc $((e-s))s $(grep -c VIOLATION work/run_${P}_s${SEED}.log) violations; $(tail -1 work/run_${P}_s${SEED}.log | cut -c1-100)"
done
