#!/bin/bash
# tools/run_all.sh <seed> [tier] [ids...] : runs every claimed check (or the given ones) once, prints one line per check
cd "$(dirname "$0")/.."
mkdir -p work
SEED=${1:-0}; TIER=${2:-quick}
LIST="${@:3}"
[ -z "$LIST" ] && LIST=$(python3 -c "import json; print(' '.join(c['property_id'] for c in json.load(open('MANIFEST.json'))['checks']))")
for P in $LIST; do
  s=$(date +%s)
  ./check $P --tier $TIER --seed $SEED > work/run_${P}_s${SEED}.log 2>&1; rc=$?
  e=$(date +%s)
  echo "$P seed=$SEED rc=$rc $((e-s))s $(grep -c VIOLATION work/run_${P}_s${SEED}.log) violations; $(tail -1 work/run_${P}_s${SEED}.log | cut -c1-100)"
done
