#!/venv/bin/python
"""Runs the repository's pinned baseline with the verification guard OFF and checks that every test in
BASELINE.json's stable_pass list still passes.  Exit 0 iff all of them pass."""
import json, os, subprocess, sys, tempfile
import xml.etree.ElementTree as ET
base = json.load(open('/root/.vp/BASELINE.json'))
env = dict(os.environ)
env.pop('AI_EDGE_QUANTIZER_VERIF', None)
env.pop('AI_EDGE_QUANTIZER_VERIF_LARGE_MODEL_THRESHOLD', None)
fd, path = tempfile.mkstemp(suffix='.junit.xml'); os.close(fd)
cmd = base['cmd'].replace('<file>', path)
p = subprocess.run(cmd, shell=True, env=env, stdout=subprocess.PIPE, stderr=subprocess.STDOUT, text=True)
passed = set()
for tc in ET.parse(path).getroot().iter('testcase'):
  if not any(ch.tag in ('failure', 'error', 'skipped') for ch in tc):
    passed.add('%s::%s' % (tc.get('classname'), tc.get('name')))
os.unlink(path)
missing = [t for t in base['stable_pass'] if t not in passed]
print('baseline: %d stable tests, %d passed now, %d missing' % (len(base['stable_pass']), len(base['stable_pass']) - len(missing), len(missing)))
for t in missing[:40]:
  print('  NOT PASSING:', t)
sys.exit(1 if missing else 0)
