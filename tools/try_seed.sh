#!/bin/bash
# usage: tools/try_seed.sh <seed id> <check> [<check> ...]   -- applies seeded/<id>/patch.diff in a scratch worktree and runs the checks
# against it without touching evidence/, replays/ or seeded/results.json (for development; tools/run_seeded.py records results)
sid=$1; shift
wt=/tmp/sr/w_$sid
mkdir -p /tmp/sr
git -C /repo worktree remove --force $wt >/dev/null 2>&1
git -C /repo worktree add -q --detach $wt HEAD || exit 2
git -C $wt apply /verif/seeded/$sid/patch.diff || exit 2
for p in "$@"; do
  VERIF_TLC_CACHE_DIR=/verif/work/tlc_cache VERIF_REPO=$wt VERIF_EVIDENCE_DIR=/tmp/sr/ev_$sid VERIF_WORK_DIR=/tmp/sr/work_$sid VERIF_REPLAYS_DIR=/tmp/sr/rep_$sid /verif/check $p 2>&1 | cut -c1-330 | grep -E "VIOLATION|RESULT|MACHINERY" | tail -3
done
git -C /repo worktree remove --force $wt
rm -rf /tmp/sr/ev_$sid /tmp/sr/work_$sid /tmp/sr/rep_$sid
