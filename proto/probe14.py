import itertools, re, json, copy, sys, collections
from absl import logging as alog
alog.set_verbosity(alog.ERROR)
exec(open('/tmp/scratch/probe13.py').read().split('import random')[0])
cls=collections.Counter()
for (r,o,c,a) in alphabet:
    rm=recipe_manager.RecipeManager()
    try: rm.add_quantization_config(r,o,CFG[c],a)
    except ValueError: cls[("refused",)]+=1; continue
    rj=json.loads(json.dumps(rm.get_quantization_recipe()))
    rm2=recipe_manager.RecipeManager()
    try:
        rm2.load_quantization_recipe(rj)
        ok = rm2.get_quantization_recipe()==rm.get_quantization_recipe()
        cls[("ok" if ok else "neq", a, c, "star" if o=="*" else "op")]+=1
    except Exception as e:
        cls[("raise:"+type(e).__name__, a, c, "star" if o=="*" else "op")]+=1
for k,v in sorted(cls.items(), key=str): print(v,k)
