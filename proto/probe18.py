import numpy as np, os, sys, traceback, itertools, collections, json, time, copy
sys.path.insert(0,'/tmp/scratch')
from absl import logging as alog
alog.set_verbosity(alog.ERROR)
src=open('/tmp/scratch/probe11.py').read().split("R='/repo/ai_edge_quantizer/recipes/'")[0]
exec(src)
from tensorflow.lite.tools import flatbuffer_utils
OPN=Q.TFLOperationName
name2op={"FULLY_CONNECTED":OPN.FULLY_CONNECTED,"CONV_2D":OPN.CONV_2D,"DEPTHWISE_CONV_2D":OPN.DEPTHWISE_CONV_2D,"CONV_2D_TRANSPOSE":OPN.CONV_2D_TRANSPOSE,"BATCH_MATMUL":OPN.BATCH_MATMUL,"EMBEDDING_LOOKUP":OPN.EMBEDDING_LOOKUP}
def decode(model, t):
    buf=np.asarray(model.buffers[t.buffer].data,dtype=np.uint8)
    n=int(np.prod(t.shape))
    if t.type==S.TensorType.FLOAT16: return np.frombuffer(buf.tobytes(),np.float16).astype(np.float32).reshape(t.shape)
    if t.type==S.TensorType.INT4:
        lo=(buf&0x0F).astype(np.int8); hi=(buf>>4).astype(np.int8)
        lo=np.where(lo>7,lo-16,lo); hi=np.where(hi>7,hi-16,hi)
        q=np.stack([lo,hi],1).flatten()[:n]
    elif t.type==S.TensorType.INT8: q=np.frombuffer(buf.tobytes(),np.int8)
    else: raise ValueError(t.type)
    q=q.reshape(t.shape).astype(np.float64)
    sc=np.array(t.quantization.scale,np.float64); zp=np.array(t.quantization.zeroPoint,np.float64)
    if len(sc)>1:
        shp=[1]*len(t.shape); shp[t.quantization.quantizedDimension]=len(sc); sc=sc.reshape(shp); zp=zp.reshape(shp)
    return ((q-zp)*sc).astype(np.float32)
def run(mb,feeds,ref=False):
    it=tfl.Interpreter(model_content=mb, experimental_op_resolver_type=tfl.OpResolverType.BUILTIN_REF if ref else tfl.OpResolverType.BUILTIN_WITHOUT_DEFAULT_DELEGATES); it.allocate_tensors()
    for d in it.get_input_details(): it.set_tensor(d['index'], feeds[d['name']])
    it.invoke()
    return [it.get_tensor(d['index']) for d in it.get_output_details()]
def W(b,s,g): return Q.TensorQuantizationConfig(b,s,g)
cfgs={}
for b in (4,8):
    for s in (True,False):
        for g in (Q.QuantGranularity.TENSORWISE,Q.QuantGranularity.CHANNELWISE):
            cfgs["WO w%d%s%s"%(b,"s" if s else "a",g[0])]=("min_max_uniform_quantize",Q.OpQuantizationConfig(weight_tensor_config=W(b,s,g),compute_precision=Q.ComputePrecision.FLOAT,explicit_dequantize=True))
            if s: cfgs["DRQ w%d%s%s"%(b,"s",g[0])]=("min_max_uniform_quantize",Q.OpQuantizationConfig(weight_tensor_config=W(b,s,g),compute_precision=Q.ComputePrecision.INTEGER))
cfgs["F16"]=("float_casting",Q.OpQuantizationConfig(weight_tensor_config=Q.TensorQuantizationConfig(16,True,Q.QuantGranularity.TENSORWISE,Q.TensorDataType.FLOAT),compute_precision=Q.ComputePrecision.FLOAT,explicit_dequantize=True))
for nm in name2op:
    mb,g=mk(builders[nm])
    for cn,(alg,cfg) in cfgs.items():
        q=quantizer.Quantizer(mb)
        try: q.update_quantization_recipe("y",name2op[nm],cfg,alg)
        except ValueError: continue
        res=q.quantize(None)
        qm=flatbuffer_utils.read_model_from_bytearray(bytes(res.quantized_model))
        fm=flatbuffer_utils.read_model_from_bytearray(mb)
        # reference: input model with w replaced by decoded
        names={t.name:i for i,t in enumerate(qm.subgraphs[0].tensors)}
        tw_q=qm.subgraphs[0].tensors[names[b'w']]; tw_f=fm.subgraphs[0].tensors[names[b'w']]
        wd=decode(qm,tw_q)
        fm.buffers[tw_f.buffer].data=np.frombuffer(wd.astype(np.float32).tobytes(),np.uint8)
        refb=bytes(flatbuffer_utils.convert_object_to_bytearray(fm))
        worst=0; worstb=0
        for k in range(4):
            x=rng.normal(size=(1,2,2,4)).astype(np.float32)*(k+1)
            a=run(bytes(res.quantized_model),{"x":x}); r=run(refb,{"x":x})
            for u,v in zip(a,r):
                d=float(np.max(np.abs(u-v))); sc=float(np.max(np.abs(v)))+1e-30
                worst=max(worst,d/sc)
                if cn.startswith("DRQ"):
                    # bound: sum|w| * Delta/2 with Delta = 2 max|x|/254 ; crude global bound
                    bound=float(np.sum(np.abs(wd),axis=None))*float(np.max(np.abs(x)))/254.0
                    worstb=max(worstb,d/(bound+1e-30))
        print("%-18s %-10s maxdiff/max|ref| = %.3e %s"%(nm,cn,worst,("diff/bound=%.3f"%worstb) if cn.startswith("DRQ") else ""))
