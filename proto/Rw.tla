---------------------------- MODULE Rw ----------------------------
(* scratch prototype: instruction generation + performer on tiny graphs *)
EXTENDS Integers, Sequences, FiniteSets, TLC, SequencesExt, FiniteSetsExt

CONSTANTS MaxOps

Modes == {"NOQ", "SRQ"}
\* tensors: 0 = graph input x; op i (0-based) produces tensor i+1
\* op inputs: sequence of 1..2 tensors among {0..i}
InsChoices(i) == {<<a>> : a \in 0..i} \cup {<<a, b>> : a \in 0..i, b \in 0..i}

Graphs(n) == [0..(n-1) -> UNION {InsChoices(i) : i \in 0..(n-1)}]
ValidGraph(g, n) == \A i \in 0..(n-1) : g[i] \in InsChoices(i)

VARIABLES n, gins, mode, gouts,   \* scenario
          ops,      \* current op list: seq of [ins, outs, orig]  (orig = original id or -1)
          outs,     \* graph outputs (seq of tensor ids)
          ttype,    \* tensor id -> "f" | "q"
          ntens,    \* number of tensors
          omap, amap,
          tq,       \* next tensor to process (in order 0..n)
          insts,    \* remaining instructions for current tensor
          prevCons, \* consumers (orig ids) of previously applied inst
          pc
vars == <<n, gins, mode, gouts, ops, outs, ttype, ntens, omap, amap, tq, insts, prevCons, pc>>

Consumers(g, nn, t) == {i \in 0..(nn-1) : \E k \in 1..Len(g[i]) : g[i][k] = t}
Sinks(g, nn) == {t \in 1..nn : Consumers(g, nn, t) = {}}

\* ---- params (simplified): SRQ op: inputs ADD_QUANTIZE with param = tensor id; outputs ADD_DEQUANTIZE
\* consumer entries for tensor t, in op order, then OUTPUT(-1) if graph output (NOQ)
ConsEntries(t) ==
  LET perOp(i) == LET cnt == Cardinality({k \in 1..Len(gins[i]) : gins[i][k] = t})
                  IN [k \in 1..cnt |-> [op |-> i, tr |-> IF mode[i] = "SRQ" THEN "AQ" ELSE "NQ"]]
      RECURSIVE acc(_)
      acc(i) == IF i = n THEN <<>> ELSE perOp(i) \o acc(i+1)
  IN acc(0) \o (IF \E k \in 1..Len(gouts) : gouts[k] = t THEN <<[op |-> -1, tr |-> "NQ"]>> ELSE <<>>)
ProdEntry(t) == IF t = 0 THEN [op |-> -1, tr |-> "NQ"]   \* INPUT virtual op, not quantized
                ELSE [op |-> t-1, tr |-> IF mode[t-1] = "SRQ" THEN "ADQ" ELSE "NQ"]

\* graph info
GiProducer(t) == IF t = 0 THEN -1 ELSE t-1
GiConsumers(t) == (IF \E k \in 1..Len(gouts) : gouts[k] = t THEN <<-1>> ELSE <<>>)
                  \o SetToSortSeq(Consumers(gins, n, t), <)

\* horizontal groups at depth 1: partition by tr (params equal since same tensor & single cfg)
Groups(ce) ==
  LET trs == <<"AQ", "NQ">>
      firstIdx(tr) == CHOOSE k \in 1..Len(ce) : ce[k].tr = tr /\ \A j \in 1..(k-1) : ce[j].tr # tr
      present == {tr \in {"AQ","NQ"} : \E k \in 1..Len(ce) : ce[k].tr = tr}
      ordered == SetToSortSeq(present, LAMBDA a, b : firstIdx(a) < firstIdx(b))
  IN [g \in 1..Len(ordered) |-> [tr |-> ordered[g],
        cons |-> SelectSeq([k \in 1..Len(ce) |-> IF ce[k].tr = ordered[g] THEN ce[k].op ELSE -99], LAMBDA x : x # -99)]]

RmFirst(s, e) == IF \E k \in 1..Len(s) : s[k] = e
                     THEN LET k == CHOOSE k \in 1..Len(s) : s[k] = e /\ \A j \in 1..(k-1) : s[j] # e
                          IN SubSeq(s, 1, k-1) \o SubSeq(s, k+1, Len(s))
                     ELSE s
RECURSIVE RemoveAll(_, _)
RemoveAll(s, es) == IF es = <<>> THEN s ELSE RemoveAll(RmFirst(s, Head(es)), Tail(es))

Inst(tr, t, p, c) == [tr |-> tr, t |-> t, p |-> p, c |-> c]

GenInsts(t) ==
  LET ce == ConsEntries(t)
      grp == Groups(ce)
      pe == ProdEntry(t)
      prule == Inst(pe.tr, t, GiProducer(t), GiConsumers(t))
      RECURSIVE vopt(_, _, _)
      vopt(k, pcons, acc) ==
        IF k > Len(grp) THEN <<pcons, acc>>
        ELSE LET r == grp[k] IN
          IF pe.tr = "ADQ" /\ r.tr = "AQ" THEN vopt(k+1, RemoveAll(pcons, r.cons), Append(acc, Inst("QT", t, GiProducer(t), r.cons)))
          ELSE IF pe.tr = "ADQ" /\ r.tr = "NQ" THEN vopt(k+1, RemoveAll(pcons, r.cons), Append(acc, Inst("ADQ", t, GiProducer(t), r.cons)))
          ELSE vopt(k+1, pcons, Append(acc, Inst(r.tr, t, GiProducer(t), r.cons)))
      res == vopt(1, prule.c, <<>>)
  IN (IF res[1] # <<>> THEN <<[prule EXCEPT !.c = res[1]]>> ELSE <<>>) \o res[2]

\* ---- performer
MapProd(p) == IF p = 0 \/ p < 0 THEN -1      \* `not producer or producer < 0`
              ELSE IF p < Len(omap) THEN omap[p+1]
              ELSE amap[p - Len(omap) + 1]
MapCons(c) == IF c = -1 THEN omap[Len(omap)] ELSE omap[c+1]
MinS(S) == CHOOSE x \in S : \A y \in S : x <= y
Max2(a, b) == IF a > b THEN a ELSE b
SeqRange(s) == {s[k] : k \in 1..Len(s)}

PyInsert(s, pos0, e) == LET p == IF pos0 > Len(s) THEN Len(s) ELSE pos0   \* python insert clamps
                        IN SubSeq(s, 1, p) \o <<e>> \o SubSeq(s, p+1, Len(s))

Init ==
  /\ n \in 1..MaxOps
  /\ gins \in Graphs(n) /\ ValidGraph(gins, n)
  /\ mode \in [0..(n-1) -> Modes]
  /\ \E S \in SUBSET (1..n) : Sinks(gins, n) \subseteq S /\ gouts = SetToSortSeq(S, <)
  /\ ops = [i \in 1..n |-> [ins |-> gins[i-1], outs |-> <<i>>, orig |-> i-1]]
  /\ outs = gouts
  /\ ttype = [t \in 0..n |-> "f"]
  /\ ntens = n + 1
  /\ omap = [i \in 1..n |-> i-1]
  /\ amap = <<>>
  /\ tq = 0 /\ insts = <<>> /\ prevCons = {} /\ pc = "gen"

Gen == /\ pc = "gen" /\ tq <= n
       /\ insts' = GenInsts(tq) /\ pc' = "apply" /\ prevCons' = {}
       /\ UNCHANGED <<n, gins, mode, gouts, ops, outs, ttype, ntens, omap, amap, tq>>

NextTensor == /\ pc = "apply" /\ insts = <<>>
              /\ tq' = tq + 1 /\ pc' = IF tq + 1 > n THEN "done" ELSE "gen"
              /\ UNCHANGED <<n, gins, mode, gouts, ops, outs, ttype, ntens, omap, amap, insts, prevCons>>

ApplySkip == /\ pc = "apply" /\ insts # <<>> /\ Head(insts).tr = "NQ"
             /\ insts' = Tail(insts)
             /\ UNCHANGED <<n, gins, mode, gouts, ops, outs, ttype, ntens, omap, amap, tq, prevCons, pc>>

ApplyQT == /\ pc = "apply" /\ insts # <<>> /\ Head(insts).tr = "QT"
           /\ ttype' = [ttype EXCEPT ![Head(insts).t] = "q"]
           /\ insts' = Tail(insts)
           \* _update_op_id_map with 0 ops added: no change
           /\ UNCHANGED <<n, gins, mode, gouts, ops, outs, ntens, omap, amap, tq, prevCons, pc>>

ApplyInsert ==
  /\ pc = "apply" /\ insts # <<>> /\ Head(insts).tr \in {"AQ", "ADQ"}
  /\ LET I == Head(insts)
         prod == MapProd(I.p)
         cons == [k \in 1..Len(I.c) |-> MapCons(I.c[k])]
         newT == ntens
         first == MinS(SeqRange(cons))
         opid == Max2(prod + 1, first)
         rew == [k \in 1..Len(ops) |->
                   IF (k-1) \in SeqRange(cons)
                   THEN [ops[k] EXCEPT !.ins = [j \in 1..Len(@) |-> IF @[j] = I.t THEN newT ELSE @[j]]]
                   ELSE ops[k]]
         newop == [ins |-> <<I.t>>, outs |-> <<newT>>, orig |-> -1]
         origCons == SeqRange(I.c)
         minOrig == MinS(origCons)
         rest == Tail(insts)
         upd == [k \in 1..Len(rest) |->
                   IF \E c \in SeqRange(rest[k].c) : c \in origCons
                   THEN [rest[k] EXCEPT !.p = Len(omap) + Len(amap) + 1 - 1, !.t = newT]
                   ELSE rest[k]]
     IN /\ ops' = PyInsert(rew, opid, newop)
        /\ outs' = [k \in 1..Len(outs) |-> IF outs[k] = I.t THEN newT ELSE outs[k]]
        /\ ttype' = IF I.tr = "AQ" THEN [t \in 0..ntens |-> IF t = newT THEN "q" ELSE ttype[t]]
                    ELSE [t \in 0..ntens |-> IF t = newT THEN "f" ELSE IF t = I.t THEN "q" ELSE ttype[t]]
        /\ ntens' = ntens + 1
        /\ amap' = Append(amap, opid)
        /\ insts' = upd
        \* np_op_id_map[original_op_id:] += 1   with python slice semantics for -1
        /\ omap' = [k \in 1..Len(omap) |->
                      IF (minOrig >= 0 /\ k - 1 >= minOrig) \/ (minOrig = -1 /\ k = Len(omap))
                      THEN omap[k] + 1 ELSE omap[k]]
  /\ UNCHANGED <<n, gins, mode, gouts, tq, prevCons, pc>>

Done == pc = "done" /\ UNCHANGED vars
Next == Gen \/ NextTensor \/ ApplySkip \/ ApplyQT \/ ApplyInsert \/ Done
Spec == Init /\ [][Next]_vars

\* ---- properties
ProducerPos(t) == {k \in 1..Len(ops) : \E j \in 1..Len(ops[k].outs) : ops[k].outs[j] = t}
TopoOK == \A k \in 1..Len(ops) : \A j \in 1..Len(ops[k].ins) :
             LET t == ops[k].ins[j] IN t = 0 \/ \E p \in ProducerPos(t) : p < k
SingleProducer == \A t \in 0..(ntens-1) : Cardinality(ProducerPos(t)) <= 1
\* erase inserted ops: skeleton preserved
Orig(t) == t \* placeholder
RECURSIVE Root(_)
Root(t) == IF t <= n THEN t
           ELSE LET k == CHOOSE k \in 1..Len(ops) : ops[k].orig = -1 /\ ops[k].outs = <<t>> IN Root(ops[k].ins[1])
Skeleton == pc = "done" =>
   LET origs == SelectSeq(ops, LAMBDA o : o.orig # -1) IN
     /\ Len(origs) = n
     /\ \A i \in 1..n : /\ origs[i].orig = i-1
                        /\ [j \in 1..Len(origs[i].ins) |-> Root(origs[i].ins[j])] = gins[i-1]
     /\ [k \in 1..Len(outs) |-> Root(outs[k])] = gouts
ModeOK == pc = "done" =>
   /\ \A k \in 1..Len(ops) : ops[k].orig # -1 =>
        LET want == IF mode[ops[k].orig] = "SRQ" THEN "q" ELSE "f" IN
          /\ \A j \in 1..Len(ops[k].ins) : ttype[ops[k].ins[j]] = want
          /\ ttype[ops[k].outs[1]] = want
   /\ \A k \in 1..Len(outs) : ttype[outs[k]] = "f"
   /\ ttype[0] = "f"
====
