INIT Init
NEXT Next
