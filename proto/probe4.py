import time, numpy as np, os, sys, copy, traceback
sys.path.insert(0,'/tmp/scratch')
exec(open('/tmp/scratch/probe3.py').read().split('print("=== S1')[0])
def runi(mb, xs):
    it=tfl.Interpreter(model_content=bytes(mb)); it.allocate_tensors()
    for d,v in zip(it.get_input_details(),xs): it.set_tensor(d['index'],v)
    it.invoke()
    return [it.get_tensor(d['index']) for d in it.get_output_details()]
print("=== S2: TANH(x)->y [op0]; y is graph output; GELU(y)->z [op1 noquant]; ADD(y,z)... last op consumes y quantized")
g=G(); sg=g.subgraph()
x=g.tensor(sg,"x",[1,3]); y=g.tensor(sg,"y",[1,3]); z=g.tensor(sg,"z",[1,3]); u=g.tensor(sg,"u",[1,3])
g.op(sg,B.TANH,[x],[y])
g.op(sg,B.GELU,[y],[z])
o,t=add_opts(); g.op(sg,B.ADD,[z,y],[u],o,t)
sg.inputs=[x]; sg.outputs=[y,u]
g.signature("serving_default",0,[("x",x)],[("y",y),("u",u)])
mb=g.bytes()
xs=[np.array([[0.3,-0.7,1.2]],np.float32)]
print("float:", runi(mb,xs))
q=quantizer.Quantizer(mb)
for opn in [Q.TFLOperationName.TANH,Q.TFLOperationName.ADD]:
    q.update_quantization_recipe(".*",opn,srq8())
cal=q.calibrate([{"x":rng.normal(size=(1,3)).astype(np.float32)} for _ in range(3)])
try:
    res=q.quantize(cal); dump(res.quantized_model)
    print("quant:", runi(res.quantized_model,xs))
except Exception as e: traceback.print_exc()
