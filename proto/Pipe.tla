---------------------------- MODULE Pipe ----------------------------
(* scratch prototype 2: build-phase scenario enumeration, materialiser with symbolic params,
   buffer-sharing check, instruction generation, performer; single subgraph *)
EXTENDS Integers, Sequences, FiniteSets, TLC, Json

CONSTANTS MaxOps, Kinds, UseConst

None == "none"
NoPar == <<"none">>
NoEntry == [op |-> -9, tr |-> "none", par |-> NoPar]
ACfgs == {"a", "b"}                       \* a = 8-bit asym, b = 16-bit sym
KindModes(k) == CASE k = "FC"    -> {"NOQ", "SRQa", "SRQb", "DRQ", "WO"}
                  [] k = "UNSUP" -> {"NOQ"}
                  [] OTHER       -> {"NOQ", "SRQa", "SRQb"}
ACfgOf(m) == IF m = "SRQa" THEN "a" ELSE "b"
IsSRQ(m) == m \in {"SRQa", "SRQb"}

VARIABLES
  \* ---- scenario (built in phase "build", then frozen)
  gops,     \* seq of [kind, ins, outs]   (tensor ids, -1 = absent)
  trole,    \* seq over tensor id+1 : "act" | "const"
  gouts,    \* seq of tensor ids
  mode,     \* seq over op id+1
  outmode,  \* mode of virtual OUTPUT op: "NOQ" | "SRQa"
  \* ---- materialiser
  qsv,      \* seq over tensor id+1 : stat term
  prod,     \* seq over tensor id+1 : entry or None
  cons,     \* seq over tensor id+1 : seq of entries
  order,    \* seq of tensor ids in first-mention order
  \* ---- rewriting state
  ops, outs, ttype, tpar, bufpar, ntens, omap, amap, qi, insts,
  pc, why
vars == <<gops, trole, gouts, mode, outmode, qsv, prod, cons, order, ops, outs, ttype, tpar, bufpar, ntens, omap, amap, qi, insts, pc, why>>

NOps == Len(gops)
NT0 == Len(trole)
Acts == {t \in 0..(NT0-1) : trole[t+1] = "act"}
Consts == {t \in 0..(NT0-1) : trole[t+1] = "const"}
SeqRange(s) == {s[k] : k \in 1..Len(s)}
MinS(S) == CHOOSE x \in S : \A y \in S : x <= y
Max2(a, b) == IF a > b THEN a ELSE b
Entry(o, tr, par) == [op |-> o, tr |-> tr, par |-> par]

\* ------------------------------------------------------------------ build phase
OperandChoices(k) ==
  LET A == Acts
      C == IF UseConst THEN Consts \cup {-2} ELSE {}     \* -2 = fresh constant
  IN CASE k = "FC"     -> {<<a, w, b>> : a \in A, w \in (Consts \cup {-2}), b \in {-1, -2}}
       [] k = "EW2"    -> {<<a, b>> : a \in A, b \in (A \cup C)}
       [] k = "CONCAT" -> {<<a, b>> : a \in A, b \in (A \cup C)}
       [] OTHER        -> {<<a>> : a \in A}          \* EW1, SAMEIN, FIXED, UNSUP

AddOp(k, sel) ==
  /\ pc = "build" /\ NOps < MaxOps
  /\ LET RECURSIVE res(_, _, _)
         \* resolve -2 (fresh const) into new tensor ids
         res(j, acc, roles) ==
           IF j > Len(sel) THEN <<acc, roles>>
           ELSE IF sel[j] = -2 THEN res(j+1, Append(acc, Len(roles)), Append(roles, "const"))
           ELSE res(j+1, Append(acc, sel[j]), roles)
         r == res(1, <<>>, trole)
         outT == Len(r[2])
     IN /\ gops' = Append(gops, [kind |-> k, ins |-> r[1], outs |-> <<outT>>])
        /\ trole' = Append(r[2], "act")
  /\ UNCHANGED <<gouts, mode, outmode, qsv, prod, cons, order, ops, outs, ttype, tpar, bufpar, ntens, omap, amap, qi, insts, pc, why>>

ConsumersOf(t) == {i \in 1..NOps : \E j \in 1..Len(gops[i].ins) : gops[i].ins[j] = t}
ProducedActs == {gops[i].outs[1] : i \in 1..NOps}
Sinks == {t \in ProducedActs : ConsumersOf(t) = {}}
AscSeq(S) == LET RECURSIVE f(_)
                  f(R) == IF R = {} THEN <<>> ELSE LET m == MinS(R) IN <<m>> \o f(R \ {m})
              IN f(S)

Seal ==
  /\ pc = "build" /\ NOps >= 1
  /\ \E S \in SUBSET ProducedActs : Sinks \subseteq S /\ gouts' = AscSeq(S)
  /\ \E md \in [1..NOps -> {"NOQ", "SRQa", "SRQb", "DRQ", "WO"}] :
        /\ \A i \in 1..NOps : md[i] \in KindModes(gops[i].kind)
        /\ mode' = md
  /\ outmode' \in {"NOQ", "SRQa"}
  /\ qsv' = [t \in 1..NT0 |-> <<"cal", t-1>>]
  /\ prod' = [t \in 1..NT0 |-> NoEntry]
  /\ cons' = [t \in 1..NT0 |-> <<>>]
  /\ order' = <<>>
  /\ ops' = [i \in 1..NOps |-> [ins |-> gops[i].ins, outs |-> gops[i].outs, orig |-> i-1]]
  /\ outs' = gouts'
  /\ ttype' = [t \in 1..NT0 |-> <<"f">>]
  /\ tpar' = [t \in 1..NT0 |-> NoPar]
  /\ bufpar' = [t \in 1..NT0 |-> NoPar]
  /\ ntens' = NT0
  /\ omap' = [i \in 1..NOps |-> i-1]
  /\ amap' = <<>>
  /\ qi' = 0 /\ insts' = <<>>
  /\ pc' = "mat" /\ why' = None
  /\ UNCHANGED <<gops, trole>>

\* ------------------------------------------------------------------ materialiser (one op per step)
WPar(t, m) == <<"W", t, "w8">>                 \* weight param: tensor + weight config (all modes here use w8 sym chan)
IsConst(t) == trole[t+1] = "const"

\* per-op list of <<tensor, isInput, entry>> in the code's order (inputs then outputs)
MatOp(i) ==
  LET o == gops[i]  m == mode[i]  id == i-1  k == o.kind
      inT(j) == o.ins[j]
      outT == o.outs[1]
      ac == ACfgOf(m)
      outParStd == <<"P", qsv[outT+1], ac>>
      outPar == IF k = "FIXED" THEN <<"P", <<"fix", ac>>, ac>> ELSE outParStd
      inPar(j) ==
        LET t == inT(j) IN
        IF k = "CONCAT" THEN outParStd
        ELSE IF IsConst(t) THEN (IF k = "FC" THEN WPar(t, m) ELSE <<"Wact", t, ac>>)
        ELSE <<"P", qsv[t+1], ac>>
      inEntry(j) ==
        LET t == inT(j) IN
        IF m = "NOQ" THEN Entry(id, "NQ", NoPar)
        ELSE IF IsSRQ(m) THEN
             IF k = "FC" /\ j = 3 THEN Entry(id, "QT", <<"B", inPar(1), inPar(2)>>)
             ELSE IF IsConst(t) THEN Entry(id, "QT", inPar(j))
             ELSE Entry(id, "AQ", inPar(j))
        ELSE IF m = "DRQ" THEN (IF IsConst(t) /\ j = 2 THEN Entry(id, "QT", WPar(t, m)) ELSE Entry(id, "NQ", NoPar))
        ELSE (* WO *)      (IF IsConst(t) /\ j = 2 THEN Entry(id, "ADQ", WPar(t, m)) ELSE Entry(id, "NQ", NoPar))
      sameInPar == inPar(1)
      outEntry == IF IsSRQ(m) THEN Entry(id, "ADQ", IF k = "SAMEIN" THEN sameInPar ELSE outPar)
                  ELSE Entry(id, "NQ", NoPar)
      insL == SelectSeq([j \in 1..Len(o.ins) |-> IF inT(j) = -1 THEN <<-1, TRUE, NoEntry>> ELSE <<inT(j), TRUE, inEntry(j)>>], LAMBDA x : x[1] # -1)
  IN insL \o << <<outT, FALSE, outEntry>> >>

\* virtual INPUT op: graph input 0 produced, NOQ; OUTPUT op consumes gouts
MatIO == << <<0, FALSE, Entry(-1, "NQ", NoPar)>> >> \o
         [k \in 1..Len(gouts) |-> <<gouts[k], TRUE,
             IF outmode = "NOQ" THEN Entry(-1, "NQ", NoPar)
             ELSE Entry(-1, "AQ", <<"P", qsv[gouts[k]+1], "a">>)>>]

RECURSIVE ApplyMat(_, _, _, _)
ApplyMat(L, p, c, ord) ==
  IF L = <<>> THEN <<p, c, ord>>
  ELSE LET x == Head(L)  t == x[1]
           ord2 == IF t \in SeqRange(ord) THEN ord ELSE Append(ord, t)
       IN IF x[2] THEN ApplyMat(Tail(L), p, [c EXCEPT ![t+1] = Append(@, x[3])], ord2)
          ELSE ApplyMat(Tail(L), [p EXCEPT ![t+1] = x[3]], c, ord2)

Materialize ==
  /\ pc = "mat"
  /\ IF qi < NOps THEN
       LET i == qi + 1
           r == ApplyMat(MatOp(i), prod, cons, order)
           o == gops[i]
       IN /\ prod' = r[1] /\ cons' = r[2] /\ order' = r[3]
          /\ qsv' = IF IsSRQ(mode[i]) /\ o.kind = "SAMEIN" THEN [qsv EXCEPT ![o.outs[1]+1] = qsv[o.ins[1]+1]]
                    ELSE IF IsSRQ(mode[i]) /\ o.kind = "FIXED" THEN [qsv EXCEPT ![o.outs[1]+1] = <<"fix", ACfgOf(mode[i])>>]
                    ELSE qsv
          /\ qi' = qi + 1 /\ pc' = "mat"
     ELSE
       LET r == ApplyMat(MatIO, prod, cons, order)
       IN /\ prod' = r[1] /\ cons' = r[2] /\ order' = r[3]
          /\ qsv' = qsv /\ qi' = 0 /\ pc' = "bufcheck"
  /\ UNCHANGED <<gops, trole, gouts, mode, outmode, ops, outs, ttype, tpar, bufpar, ntens, omap, amap, insts, why>>

\* ------------------------------------------------------------------ buffer sharing check
FloatSrc == {"AQ", "NQ"}   QuantSrc == {"QT", "ADQ"}
CompatE(a, b) ==
  \/ (a.tr = b.tr /\ a.par = b.par)
  \/ /\ ~(a.tr # "NQ" /\ b.tr # "NQ" /\ a.par # b.par)
     /\ \/ (a.tr \in FloatSrc /\ b.tr \in FloatSrc)
        \/ (a.tr \in QuantSrc /\ b.tr \in QuantSrc)
\* number of mentions of tensor t by real ops (outputs + inputs, with multiplicity)
Mentions(t) == LET RECURSIVE f(_)
                   f(i) == IF i > NOps THEN 0
                           ELSE Cardinality({j \in 1..Len(gops[i].ins) : gops[i].ins[j] = t})
                                + (IF gops[i].outs[1] = t THEN 1 ELSE 0) + f(i+1)
               IN f(1)
SelfCompat(t) == cons[t+1] = <<>> \/ \A k \in 1..Len(cons[t+1]) : CompatE(cons[t+1][k], cons[t+1][1])
BufCheck ==
  /\ pc = "bufcheck"
  /\ IF \E t \in 0..(NT0-1) : Mentions(t) >= 2 /\ ~SelfCompat(t)
     THEN pc' = "raised" /\ why' = "buffer_sharing"
     ELSE pc' = "gen" /\ why' = why
  /\ UNCHANGED <<gops, trole, gouts, mode, outmode, qsv, prod, cons, order, ops, outs, ttype, tpar, bufpar, ntens, omap, amap, qi, insts>>

\* ------------------------------------------------------------------ instruction generation
GiProducer(t) == IF \E i \in 1..NOps : gops[i].outs[1] = t THEN (CHOOSE i \in 1..NOps : gops[i].outs[1] = t) - 1 ELSE -1
GiConsumers(t) == (IF t \in SeqRange(gouts) THEN <<-1>> ELSE <<>>) \o AscSeq({i-1 : i \in ConsumersOf(t)})
Inst(tr, t, p, c, par) == [tr |-> tr, t |-> t, p |-> p, c |-> c, par |-> par]

\* groups at depth 1, in order of first member: seq of [tr, par, cons]
Groups(ce) ==
  LET RECURSIVE f(_, _)
      f(k, acc) ==
        IF k > Len(ce) THEN acc
        ELSE LET e == ce[k]
                 hit == {g \in 1..Len(acc) : acc[g].tr = e.tr /\ acc[g].par = e.par}
             IN IF hit # {} THEN LET g == MinS(hit) IN f(k+1, [acc EXCEPT ![g].cons = Append(@, e.op)])
                ELSE f(k+1, Append(acc, [tr |-> e.tr, par |-> e.par, cons |-> <<e.op>>]))
  IN f(1, <<>>)

RmFirst(s, e) == IF \E k \in 1..Len(s) : s[k] = e
                 THEN LET k == MinS({k \in 1..Len(s) : s[k] = e}) IN SubSeq(s, 1, k-1) \o SubSeq(s, k+1, Len(s))
                 ELSE s
RECURSIVE RemoveAllGuarded(_, _)
RemoveAllGuarded(s, es) == IF es = <<>> THEN s ELSE RemoveAllGuarded(RmFirst(s, Head(es)), Tail(es))
\* unguarded list.remove: fails (ValueError) if element absent
RECURSIVE RemoveAllStrict(_, _)
RemoveAllStrict(s, es) == IF es = <<>> THEN <<TRUE, s>>
                          ELSE IF Head(es) \notin SeqRange(s) THEN <<FALSE, s>>
                          ELSE RemoveAllStrict(RmFirst(s, Head(es)), Tail(es))

\* returns <<ok, instruction list>>
GenInsts(t) ==
  LET grp == Groups(cons[t+1])
      pe == prod[t+1]
      gp == GiProducer(t)
      RECURSIVE vopt(_, _, _)
      vopt(k, pcons, acc) ==
        IF k > Len(grp) THEN <<TRUE, pcons, acc>>
        ELSE LET r == grp[k] IN
          IF pe.tr = "ADQ" /\ r.tr = "AQ" /\ pe.par = r.par
            THEN vopt(k+1, RemoveAllGuarded(pcons, r.cons), Append(acc, Inst("QT", t, gp, r.cons, r.par)))
          ELSE IF pe.tr = "ADQ" /\ r.tr = "AQ"
            THEN LET rr == RemoveAllStrict(pcons, r.cons) IN
                 IF ~rr[1] THEN <<FALSE, pcons, acc>>
                 ELSE vopt(k+1, rr[2], acc \o <<Inst("QT", t, gp, r.cons, pe.par), Inst("AQ", t, gp, r.cons, r.par)>>)
          ELSE IF pe.tr = "ADQ" /\ r.tr = "NQ"
            THEN vopt(k+1, RemoveAllGuarded(pcons, r.cons), Append(acc, Inst("ADQ", t, gp, r.cons, pe.par)))
          ELSE vopt(k+1, pcons, Append(acc, Inst(r.tr, t, gp, r.cons, r.par)))
  IN IF pe.tr = "none"
     THEN <<TRUE, [k \in 1..Len(grp) |-> Inst(grp[k].tr, t, gp, grp[k].cons, grp[k].par)]>>
     ELSE LET res == vopt(1, GiConsumers(t), <<>>) IN
          <<res[1], (IF res[2] # <<>> THEN <<Inst(pe.tr, t, gp, res[2], pe.par)>> ELSE <<>>) \o res[3]>>

ValidInsts(L) == ~ ( (\E k \in 1..Len(L) : L[k].tr = "NQ") /\ (\E k \in 1..Len(L) : L[k].tr \in {"QT", "ADQ"}) )

Gen ==
  /\ pc = "gen"
  /\ IF qi >= Len(order) THEN pc' = "done" /\ insts' = <<>> /\ why' = why
     ELSE LET g == GenInsts(order[qi+1]) IN
          IF ~g[1] THEN pc' = "raised" /\ why' = "list_remove" /\ insts' = <<>>
          ELSE IF ~ValidInsts(g[2]) THEN pc' = "raised" /\ why' = "both_q_and_unq" /\ insts' = <<>>
          ELSE pc' = "apply" /\ insts' = g[2] /\ why' = why
  /\ UNCHANGED <<gops, trole, gouts, mode, outmode, qsv, prod, cons, order, ops, outs, ttype, tpar, bufpar, ntens, omap, amap, qi>>

\* ------------------------------------------------------------------ performer
MapProd(p) == IF p = 0 \/ p < 0 THEN -1
              ELSE IF p < Len(omap) THEN omap[p+1]
              ELSE amap[p - Len(omap) + 1]
MapCons(c) == IF c = -1 THEN omap[Len(omap)] ELSE omap[c+1]
PyInsert(s, pos0, e) == LET p == IF pos0 > Len(s) THEN Len(s) ELSE pos0
                        IN SubSeq(s, 1, p) \o <<e>> \o SubSeq(s, p+1, Len(s))

NextTensor == /\ pc = "apply" /\ insts = <<>>
              /\ qi' = qi + 1 /\ pc' = "gen"
              /\ UNCHANGED <<gops, trole, gouts, mode, outmode, qsv, prod, cons, order, ops, outs, ttype, tpar, bufpar, ntens, omap, amap, insts, why>>

ApplySkip == /\ pc = "apply" /\ insts # <<>> /\ Head(insts).tr = "NQ"
             /\ insts' = Tail(insts)
             /\ UNCHANGED <<gops, trole, gouts, mode, outmode, qsv, prod, cons, order, ops, outs, ttype, tpar, bufpar, ntens, omap, amap, qi, pc, why>>

QType(par) == IF par[1] = "P" THEN <<"q", par[3]>> ELSE IF par[1] = "Wact" THEN <<"q", par[3]>> ELSE IF par[1] = "B" THEN <<"qb">> ELSE <<"qw">>
HasData(par) == par[1] \in {"W", "Wact", "B"}

ApplyQT == /\ pc = "apply" /\ insts # <<>> /\ Head(insts).tr = "QT"
           /\ LET I == Head(insts) IN
                /\ ttype' = [ttype EXCEPT ![I.t+1] = QType(I.par)]
                /\ tpar' = [tpar EXCEPT ![I.t+1] = I.par]
                /\ bufpar' = IF I.t < NT0 /\ IsConst(I.t) /\ HasData(I.par) THEN [bufpar EXCEPT ![I.t+1] = I.par] ELSE bufpar
           /\ insts' = Tail(insts)
           /\ UNCHANGED <<gops, trole, gouts, mode, outmode, qsv, prod, cons, order, ops, outs, ntens, omap, amap, qi, pc, why>>

ApplyInsert ==
  /\ pc = "apply" /\ insts # <<>> /\ Head(insts).tr \in {"AQ", "ADQ"}
  /\ LET I == Head(insts)
         pr == MapProd(I.p)
         cs == [k \in 1..Len(I.c) |-> MapCons(I.c[k])]
         newT == ntens
         opid == Max2(pr + 1, MinS(SeqRange(cs)))
         rew == [k \in 1..Len(ops) |->
                   IF (k-1) \in SeqRange(cs)
                   THEN [ops[k] EXCEPT !.ins = [j \in 1..Len(@) |-> IF @[j] = I.t THEN newT ELSE @[j]]]
                   ELSE ops[k]]
         newop == [ins |-> <<I.t>>, outs |-> <<newT>>, orig |-> -1]
         origCons == SeqRange(I.c)
         minOrig == MinS(origCons)
         rest == Tail(insts)
         upd == [k \in 1..Len(rest) |->
                   IF \E c \in SeqRange(rest[k].c) : c \in origCons
                   THEN [rest[k] EXCEPT !.p = Len(omap) + Len(amap), !.t = newT]
                   ELSE rest[k]]
     IN /\ ops' = PyInsert(rew, opid, newop)
        /\ outs' = [k \in 1..Len(outs) |-> IF outs[k] = I.t THEN newT ELSE outs[k]]
        /\ IF I.tr = "AQ"
           THEN /\ ttype' = Append(ttype, QType(I.par)) /\ tpar' = Append(tpar, I.par) /\ bufpar' = bufpar
           ELSE /\ ttype' = Append([ttype EXCEPT ![I.t+1] = QType(I.par)], <<"f">>)
                /\ tpar' = Append([tpar EXCEPT ![I.t+1] = I.par], NoPar)
                /\ bufpar' = IF I.t < NT0 /\ IsConst(I.t) /\ HasData(I.par) THEN [bufpar EXCEPT ![I.t+1] = I.par] ELSE bufpar
        /\ ntens' = ntens + 1
        /\ amap' = Append(amap, opid)
        /\ insts' = upd
        /\ omap' = [k \in 1..Len(omap) |->
                      IF (minOrig >= 0 /\ k - 1 >= minOrig) \/ (minOrig = -1 /\ k = Len(omap))
                      THEN omap[k] + 1 ELSE omap[k]]
  /\ UNCHANGED <<gops, trole, gouts, mode, outmode, qsv, prod, cons, order, qi, pc, why>>

Stutter == pc \in {"done", "raised"} /\ UNCHANGED vars

Init ==
  /\ gops = <<>> /\ trole = <<"act">> /\ gouts = <<>> /\ mode = <<>> /\ outmode = "NOQ"
  /\ qsv = <<>> /\ prod = <<>> /\ cons = <<>> /\ order = <<>>
  /\ ops = <<>> /\ outs = <<>> /\ ttype = <<>> /\ tpar = <<>> /\ bufpar = <<>> /\ ntens = 0
  /\ omap = <<>> /\ amap = <<>> /\ qi = 0 /\ insts = <<>> /\ pc = "build" /\ why = None

Next == \/ \E k \in Kinds : \E sel \in OperandChoices(k) : AddOp(k, sel)
        \/ Seal \/ Materialize \/ BufCheck \/ Gen \/ NextTensor \/ ApplySkip \/ ApplyQT \/ ApplyInsert \/ Stutter
Spec == Init /\ [][Next]_vars

\* ------------------------------------------------------------------ properties
ProducerPos(t) == {k \in 1..Len(ops) : t \in SeqRange(ops[k].outs)}
IsGraphIn(t) == t = 0
IsConstT(t) == t < NT0 /\ trole[t+1] = "const"
TopoOK == pc \in {"gen", "apply", "done"} =>
            \A k \in 1..Len(ops) : \A j \in 1..Len(ops[k].ins) :
              LET t == ops[k].ins[j] IN t = -1 \/ IsGraphIn(t) \/ IsConstT(t) \/ \E p \in ProducerPos(t) : p < k
NeverRaises == pc # "raised"
RECURSIVE Root(_)
Root(t) == IF t < NT0 THEN t
           ELSE LET k == CHOOSE k \in 1..Len(ops) : ops[k].orig = -1 /\ ops[k].outs = <<t>> IN Root(ops[k].ins[1])
Skeleton == pc = "done" =>
   LET origs == SelectSeq(ops, LAMBDA o : o.orig # -1) IN
     /\ Len(origs) = NOps
     /\ \A i \in 1..NOps : /\ origs[i].orig = i-1
                           /\ [j \in 1..Len(origs[i].ins) |-> IF origs[i].ins[j] = -1 THEN -1 ELSE Root(origs[i].ins[j])] = gops[i].ins
                           /\ origs[i].outs = gops[i].outs
     /\ [k \in 1..Len(outs) |-> Root(outs[k])] = gouts
\* dtype discipline per mode (C03)
WantAct(m) == IF IsSRQ(m) THEN <<"q", ACfgOf(m)>> ELSE <<"f">>
ModeOK == pc = "done" =>
   /\ \A k \in 1..Len(ops) : ops[k].orig # -1 =>
        LET i == ops[k].orig + 1  m == mode[i]  kd == gops[i].kind IN
          /\ ttype[ops[k].outs[1]+1] = WantAct(m)
          /\ \A j \in 1..Len(ops[k].ins) :
               LET t == ops[k].ins[j] IN
               t # -1 =>
                 IF t < NT0 /\ IsConst(t)
                 THEN CASE m = "NOQ" -> ttype[t+1] = <<"f">>
                        [] m = "DRQ" -> (IF j = 2 THEN ttype[t+1] = <<"qw">> ELSE ttype[t+1] = <<"f">>)
                        [] m = "WO"  -> ttype[t+1] = <<"f">>      \* reached only if not through a dequant: violation if weight
                        [] OTHER     -> ttype[t+1] \in {<<"qw">>, <<"qb">>}
                 ELSE IF m = "WO" /\ j = 2 /\ kd = "FC"
                      THEN t >= NT0 /\ ttype[t+1] = <<"f">> /\ ttype[Root(t)+1] = <<"qw">>
                      ELSE ttype[t+1] = WantAct(m)
   /\ \A k \in 1..Len(outs) : ttype[outs[k]+1] = (IF outmode = "NOQ" THEN <<"f">> ELSE <<"q", "a">>)
\* stored bytes agree with the tensor's type/params (C05/C15)
BytesOK == pc = "done" => \A t \in 0..(NT0-1) : IsConst(t) => (IF ttype[t+1] = <<"f">> THEN bufpar[t+1] = NoPar ELSE bufpar[t+1] = tpar[t+1])

\* ---- tallies (scratch): registers 1..8
TopoBad == ~(\A k \in 1..Len(ops) : \A j \in 1..Len(ops[k].ins) :
              LET t == ops[k].ins[j] IN t = -1 \/ IsGraphIn(t) \/ IsConstT(t) \/ \E p \in ProducerPos(t) : p < k)
Bump(r) == TLCSet(r, TLCGet(r) + 1)
First(r, v) == IF TLCGet(r) = 0 THEN PrintT(<<"FIRST", r, v>>) ELSE TRUE
Scn == [gops |-> gops, gouts |-> gouts, mode |-> mode, outmode |-> outmode]
Tally ==
  /\ (pc = "done" => Bump(1))
  /\ (pc = "raised" /\ why = "buffer_sharing" => First(2, Scn) /\ Bump(2))
  /\ (pc = "raised" /\ why = "list_remove" => First(3, Scn) /\ Bump(3))
  /\ (pc = "raised" /\ why = "both_q_and_unq" => First(4, Scn) /\ Bump(4))
  /\ (pc = "done" /\ TopoBad => First(5, Scn) /\ Bump(5))
  /\ (pc = "done" /\ ~TopoBad /\ ~Skeleton => First(6, Scn) /\ Bump(6))
  /\ (pc = "done" /\ ~TopoBad /\ Skeleton /\ ~ModeOK => First(7, <<Scn, ops, ttype>>) /\ Bump(7))
  /\ (pc = "done" /\ ~BytesOK => First(8, <<Scn, ttype, bufpar>>) /\ Bump(8))
ASSUME \A r \in 1..8 : TLCSet(r, 0)
Report == PrintT(<<"TALLY", [r \in 1..8 |-> TLCGet(r)]>>)

Dump == [scn |-> [gops |-> gops, trole |-> trole, gouts |-> gouts, mode |-> mode, outmode |-> outmode],
         pc |-> pc, why |-> why, ops |-> ops, outs |-> outs, ttype |-> ttype]
DumpC == (pc \in {"done", "raised"}) => PrintT(<<"DUMP", ToJson(Dump)>>)
====
