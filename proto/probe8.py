import time, numpy as np, os, sys, copy, traceback, json
sys.path.insert(0,'/tmp/scratch')
exec(open('/tmp/scratch/probe3.py').read().split('print("=== S1')[0])
def runi(mb, xs):
    it=tfl.Interpreter(model_content=bytes(mb)); it.allocate_tensors()
    for d,v in zip(it.get_input_details(),xs): it.set_tensor(d['index'],v)
    it.invoke()
    return [it.get_tensor(d['index']) for d in it.get_output_details()]
def concat_opts(axis=1):
    o=S.ConcatenationOptionsT(); o.axis=axis; return o,S.BuiltinOptions.ConcatenationOptions
def mul_opts():
    o=S.MulOptionsT(); return o,S.BuiltinOptions.MulOptions
R='/repo/ai_edge_quantizer/recipes/'
def tryq(mb, rec, inputs, label):
    try:
        q=quantizer.Quantizer(mb, rec)
        cal=None
        if q.need_calibration: cal=q.calibrate([inputs])
        res=q.quantize(cal)
        try:
            out=runi(res.quantized_model,[inputs[k] if True else None for k in inputs]) if not q.need_calibration else "skip-run"
        except Exception as e: out="RUNERR "+str(e)[:100]
        print(label, "OK", out if isinstance(out,str) else "ran")
        return res
    except Exception as e:
        print(label, "RAISED", type(e).__name__, str(e)[:160])
print("=== (i) concat of shared tensor: x -> TANH->y ; CONCAT(y,x)->z ; ADD(y,y) -> u")
g=G(); sg=g.subgraph()
x=g.tensor(sg,"x",[1,3]); y=g.tensor(sg,"y",[1,3]); z=g.tensor(sg,"z",[1,6]); u=g.tensor(sg,"u",[1,3])
g.op(sg,B.TANH,[x],[y]); o,t=concat_opts(); g.op(sg,B.CONCATENATION,[y,x],[z],o,t); o,t=add_opts(); g.op(sg,B.ADD,[y,x],[u],o,t)
sg.inputs=[x]; sg.outputs=[z,u]; g.signature("serving_default",0,[("x",x)],[("z",z),("u",u)])
mb=g.bytes(); inp={"x":rng.normal(size=(1,3)).astype(np.float32)}
for r in ['default_a8w8_recipe.json','default_a16w8_recipe.json','dynamic_wi8_afp32_recipe.json','default_af32w8float_recipe.json','default_af32w4float_recipe.json']:
    tryq(mb,R+r,inp,"concat-shared "+r)
print("=== (ii) MUL(x,x)")
g=G(); sg=g.subgraph()
x=g.tensor(sg,"x",[1,3]); y=g.tensor(sg,"y",[1,3])
o,t=mul_opts(); g.op(sg,B.MUL,[x,x],[y],o,t)
sg.inputs=[x]; sg.outputs=[y]; g.signature("serving_default",0,[("x",x)],[("y",y)])
mb=g.bytes()
for r in ['default_a8w8_recipe.json','default_a16w8_recipe.json']:
    tryq(mb,R+r,inp,"square "+r)
print("=== (ii-b) TANH(x)->y; MUL(y,y)->z with tanh a8 and mul a16")
g=G(); sg=g.subgraph()
x=g.tensor(sg,"x",[1,3]); y=g.tensor(sg,"y",[1,3]); z=g.tensor(sg,"z",[1,3])
g.op(sg,B.TANH,[x],[y]); o,t=mul_opts(); g.op(sg,B.MUL,[y,y],[z],o,t)
sg.inputs=[x]; sg.outputs=[z]; g.signature("serving_default",0,[("x",x)],[("z",z)])
mb=g.bytes()
def srq16(): return Q.OpQuantizationConfig(activation_tensor_config=Q.TensorQuantizationConfig(16,True),weight_tensor_config=Q.TensorQuantizationConfig(8,True,Q.QuantGranularity.CHANNELWISE),compute_precision=Q.ComputePrecision.INTEGER)
q=quantizer.Quantizer(mb); q.update_quantization_recipe(".*",Q.TFLOperationName.TANH,srq8()); q.update_quantization_recipe(".*",Q.TFLOperationName.MUL,srq16())
cal=q.calibrate([inp])
try: res=q.quantize(cal); print("ok"); dump(res.quantized_model)
except Exception as e: print("RAISED",type(e).__name__,e)
print("=== (iii) export weightless star rule")
q=quantizer.Quantizer(mb); q.update_quantization_recipe(".*",Q.TFLOperationName.ALL_SUPPORTED,None)
rj=json.loads(json.dumps(q.get_quantization_recipe())); print(rj)
try: quantizer.Quantizer(mb, rj); print("reload ok")
except Exception as e: print("reload RAISED",type(e).__name__,e)
q=quantizer.Quantizer(mb); q.update_quantization_recipe(".*",Q.TFLOperationName.TANH,None,"no_quantize")
rj=json.loads(json.dumps(q.get_quantization_recipe())); print(rj)
try: q2=quantizer.Quantizer(mb, rj); print("reload ok", q2.get_quantization_recipe()==rj)
except Exception as e: print("reload RAISED",type(e).__name__,e)
