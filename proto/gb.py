"""scratch graph builder for probing"""
import numpy as np, os
from ai_edge_litert import schema_py_generated as S
from tensorflow.lite.tools import flatbuffer_utils
B=S.BuiltinOperator
class G:
    def __init__(self):
        self.m=S.ModelT(); self.m.version=3; self.m.description=b"synth"
        self.m.operatorCodes=[]; self.m.buffers=[S.BufferT()]; self.m.subgraphs=[]; self.m.signatureDefs=[]
    def subgraph(self,name=b"main"):
        sg=S.SubGraphT(); sg.name=name; sg.tensors=[]; sg.operators=[]; sg.inputs=[]; sg.outputs=[]
        self.m.subgraphs.append(sg); return sg
    def opcode(self,code):
        for i,c in enumerate(self.m.operatorCodes):
            if c.builtinCode==code: return i
        c=S.OperatorCodeT(); c.builtinCode=code; c.deprecatedBuiltinCode=min(code,127); c.version=1
        self.m.operatorCodes.append(c); return len(self.m.operatorCodes)-1
    def tensor(self,sg,name,shape,data=None,ttype=S.TensorType.FLOAT32,buffer=None):
        t=S.TensorT(); t.name=name.encode(); t.shape=list(shape); t.type=ttype
        if buffer is None:
            b=S.BufferT()
            if data is not None: b.data=np.frombuffer(np.ascontiguousarray(data).tobytes(),dtype=np.uint8)
            self.m.buffers.append(b); t.buffer=len(self.m.buffers)-1
        else: t.buffer=buffer
        sg.tensors.append(t); return len(sg.tensors)-1
    def op(self,sg,code,ins,outs,opts=None,optstype=0):
        o=S.OperatorT(); o.opcodeIndex=self.opcode(code); o.inputs=list(ins); o.outputs=list(outs)
        if opts is not None: o.builtinOptions=opts; o.builtinOptionsType=optstype
        sg.operators.append(o); return len(sg.operators)-1
    def signature(self,key,sgidx,ins,outs):
        sd=S.SignatureDefT(); sd.signatureKey=key.encode(); sd.subgraphIndex=sgidx
        sd.inputs=[];sd.outputs=[]
        for n,i in ins:
            tm=S.TensorMapT(); tm.name=n.encode(); tm.tensorIndex=i; sd.inputs.append(tm)
        for n,i in outs:
            tm=S.TensorMapT(); tm.name=n.encode(); tm.tensorIndex=i; sd.outputs.append(tm)
        self.m.signatureDefs.append(sd)
    def bytes(self):
        return bytes(flatbuffer_utils.convert_object_to_bytearray(self.m))
def fc_opts():
    o=S.FullyConnectedOptionsT(); return o, S.BuiltinOptions.FullyConnectedOptions
def add_opts():
    o=S.AddOptionsT(); return o, S.BuiltinOptions.AddOptions
