import time, numpy as np, os, sys, copy, traceback, json
sys.path.insert(0,'/tmp/scratch')
exec(open('/tmp/scratch/probe3.py').read().split('print("=== S1')[0])
from ai_edge_quantizer import model_validator
from ai_edge_quantizer.utils import validation_utils
g=G(); sg=g.subgraph()
x=g.tensor(sg,"x",[1,4]); w=g.tensor(sg,"w",[3,4],rng.normal(size=(3,4)).astype(np.float32)); b=g.tensor(sg,"b",[3],rng.normal(size=(3,)).astype(np.float32))
y=g.tensor(sg,"y",[1,3]); z=g.tensor(sg,"z",[1,3]); u=g.tensor(sg,"u",[1,3])
o,t=fc_opts(); g.op(sg,B.FULLY_CONNECTED,[x,w,b],[y],o,t)
g.op(sg,B.TANH,[y],[z]); o,t=add_opts(); g.op(sg,B.ADD,[z,y],[u],o,t)
sg.inputs=[x]; sg.outputs=[u]
g.signature("serving_default",0,[("x",x)],[("u",u)])
mb=g.bytes()
data={"serving_default":[{"x":rng.normal(size=(1,4)).astype(np.float32)} for _ in range(2)]}
def show(res):
    r=res.get_signature_comparison_result("serving_default")
    print("  inputs",r.input_tensors,"\n  outputs",r.output_tensors,"\n  consts",r.constant_tensors,"\n  inter",r.intermediate_tensors)
print("self-compare")
show(model_validator.compare_model(mb,mb,data,"mse",validation_utils.get_validation_func("mse")))
R='/repo/ai_edge_quantizer/recipes/'
for rec in ['default_a8w8_recipe.json','default_af32w8float_recipe.json','dynamic_wi8_afp32_recipe.json']:
    print(rec)
    try:
        q=quantizer.Quantizer(mb,R+rec); cal=q.calibrate(data["serving_default"]) if q.need_calibration else None
        q.quantize(cal); show(q.validate(data))
    except Exception as e: traceback.print_exc()
print("SRQ float IO")
try:
    q=quantizer.Quantizer(mb)
    for opn in [Q.TFLOperationName.FULLY_CONNECTED,Q.TFLOperationName.TANH,Q.TFLOperationName.ADD]: q.update_quantization_recipe(".*",opn,srq8())
    cal=q.calibrate(data["serving_default"]); q.quantize(cal); show(q.validate(data))
except Exception as e: traceback.print_exc()
