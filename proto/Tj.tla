---- MODULE Tj ----
EXTENDS Integers, Sequences, TLC, Json
ASSUME PrintT(ToJson([gops |-> << [outs |-> <<3>>, kind |-> "FC", ins |-> <<0, 1, -1>>] >>, par |-> <<"P", <<"cal", 0>>, "a">>, f |-> [x \in {1,2} |-> x*x], s |-> {1,2}, b |-> TRUE]))
VARIABLE x
Init == x = 0
Next == x' = x
====
