import numpy as np, os, sys, copy, hashlib
sys.path.insert(0,'/tmp/scratch')
from absl import logging as alog
alog.set_verbosity(alog.ERROR)
exec(open('/tmp/scratch/probe3.py').read().split('print("=== S1')[0])
g=G(); sg=g.subgraph()
x=g.tensor(sg,"x",[1,4]); y=g.tensor(sg,"y",[1,4]); z=g.tensor(sg,"z",[1,4]); u=g.tensor(sg,"u",[1,4])
g.op(sg,B.GELU,[x],[y]); g.op(sg,B.TANH,[y],[z]); o,t=add_opts(); g.op(sg,B.ADD,[z,y],[u],o,t)
sg.inputs=[x]; sg.outputs=[u]; g.signature("serving_default",0,[("x",x)],[("u",u)])
mb=g.bytes()
data=[{"x":rng.normal(size=(1,4)).astype(np.float32)*3}]
def R1(q):
    for opn in [Q.TFLOperationName.TANH,Q.TFLOperationName.ADD]: q.update_quantization_recipe(".*",opn,srq8())
def R2(q):
    q.update_quantization_recipe(".*",Q.TFLOperationName.ADD,srq8())
q0=quantizer.Quantizer(mb); R1(q0); cal=q0.calibrate(data); cal_orig=copy.deepcopy(cal)
h=lambda b: hashlib.sha256(bytes(b)).hexdigest()[:12]
# history: R1 quantize then R2 quantize on same cal
qa=quantizer.Quantizer(mb); R1(qa); a1=qa.quantize(cal).quantized_model
qb=quantizer.Quantizer(mb); R2(qb); b_hist=qb.quantize(cal).quantized_model
# fresh: R2 with pristine cal
qc=quantizer.Quantizer(mb); R2(qc); b_fresh=qc.quantize(copy.deepcopy(cal_orig)).quantized_model
print("R2 after R1 (shared cal):",h(b_hist)," R2 fresh:",h(b_fresh)," equal:",h(b_hist)==h(b_fresh))
print("cal z before",cal_orig["z"],"after",cal["z"])
