import numpy as np, os, sys, traceback, copy
sys.path.insert(0,'/tmp/scratch')
from absl import logging as alog
alog.set_verbosity(alog.ERROR)
from gb import *
from ai_edge_quantizer import quantizer, qtyping as Q
from tensorflow.lite.tools import flatbuffer_utils
rng=np.random.default_rng(0)
OPN=Q.TFLOperationName
W1=rng.normal(size=(4,4)).astype(np.float32); W2=rng.normal(size=(4,4)).astype(np.float32)
def sub(g,pref,w,share_buf=None):
    sg=g.subgraph(pref.encode())
    x=g.tensor(sg,pref+"x",[1,4]); 
    wt=g.tensor(sg,pref+"w",[4,4],w,buffer=share_buf) if share_buf is not None else g.tensor(sg,pref+"w",[4,4],w)
    y=g.tensor(sg,pref+"y",[1,4]); z=g.tensor(sg,pref+"z",[1,4]); u=g.tensor(sg,pref+"u",[1,4])
    o=S.FullyConnectedOptionsT(); g.op(sg,B.FULLY_CONNECTED,[x,wt,-1],[y],o,S.BuiltinOptions.FullyConnectedOptions)
    g.op(sg,B.TANH,[y],[z]); g.op(sg,B.ADD,[z,y],[u],S.AddOptionsT(),S.BuiltinOptions.AddOptions)
    sg.inputs=[x]; sg.outputs=[u,y]
    return sg,wt
def model(which, share=False):
    g=G(); 
    bufidx=None
    for i,(pref,w) in enumerate([("a_",W1),("b_",W1 if share else W2)]):
        if pref not in which: continue
        sg,wt=sub(g,pref,w, share_buf=(bufidx if (share and bufidx is not None) else None))
        if share and bufidx is None: bufidx=sg.tensors[wt].buffer
        g.signature(pref+"sig",len(g.m.subgraphs)-1,[("x",0)],[("u",4),("y",2)])
    return g.bytes()
def proj(mb, si):
    m=flatbuffer_utils.read_model_from_bytearray(bytes(mb)); sg=m.subgraphs[si]
    codes=[c.builtinCode for c in m.operatorCodes]
    ops=[(codes[o.opcodeIndex],[int(i) for i in o.inputs],[int(i) for i in o.outputs]) for o in sg.operators]
    tens=[(t.name,t.type,None if t.quantization is None or t.quantization.scale is None else (tuple(np.round(t.quantization.scale,9)),tuple(t.quantization.zeroPoint),t.quantization.quantizedDimension), None if m.buffers[t.buffer].data is None else bytes(m.buffers[t.buffer].data)) for t in sg.tensors]
    return ops,tens,[int(i) for i in sg.inputs],[int(i) for i in sg.outputs]
def srq8(): return Q.OpQuantizationConfig(activation_tensor_config=Q.TensorQuantizationConfig(8,False),weight_tensor_config=Q.TensorQuantizationConfig(8,True,Q.QuantGranularity.CHANNELWISE),compute_precision=Q.ComputePrecision.INTEGER)
def stats(prefs): 
    d={}
    for p in prefs:
        for k,(n,v) in enumerate([("x",1.0),("y",2.5),("z",0.9),("u",3.1)]):
            d[p+n]={"min":np.array([[-v*(1 if p=="a_" else 1.3)]],np.float32),"max":np.array([[v*0.8]],np.float32)}
    return d
for share in (False,True):
    for recipe_name,rules in [("srq-all",[(".*",OPN.FULLY_CONNECTED),(".*",OPN.TANH),(".*",OPN.ADD)]),("srq-a-only",[("a_",OPN.FULLY_CONNECTED),("a_",OPN.TANH),("a_",OPN.ADD)]),("mixed",[("a_",OPN.FULLY_CONNECTED),("b_",OPN.TANH),("b_",OPN.ADD)])]:
        res={}
        for which in (("a_","b_"),("a_",),("b_",)):
            mb=model(which,share)
            q=quantizer.Quantizer(mb)
            for r,o in rules: q.update_quantization_recipe(r,o,srq8())
            try: res[which]=q.quantize(stats(["a_","b_"])).quantized_model
            except Exception as e: res[which]="RAISED "+type(e).__name__+": "+str(e)[:80]
        if any(isinstance(v,str) for v in res.values()): print(share,recipe_name,{k:(v if isinstance(v,str) else "ok") for k,v in res.items()}); continue
        ok_a = proj(res[("a_","b_")],0)==proj(res[("a_",)],0)
        ok_b = proj(res[("a_","b_")],1)==proj(res[("b_",)],0)
        print("share",share,recipe_name,"subgraph a equal:",ok_a,"subgraph b equal:",ok_b)
        if not ok_b:
            A=proj(res[("a_","b_")],1); Bp=proj(res[("b_",)],0)
            print("   multi",A[0],A[2],A[3]); print("   single",Bp[0],Bp[2],Bp[3])
