SPECIFICATION Spec
CONSTANTS MaxOps = 3
 Kinds = {"EW2", "EW1", "FIXED", "UNSUP"}
 UseConst = FALSE
 Fixed = TRUE
CONSTRAINT Tally
POSTCONDITION Report
CHECK_DEADLOCK FALSE
