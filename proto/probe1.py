import time, numpy as np, os
os.environ.setdefault("TF_CPP_MIN_LOG_LEVEL","3")
t0=time.time()
from ai_edge_quantizer import quantizer, qtyping, recipe
from ai_edge_quantizer.utils import tfl_flatbuffer_utils, tfl_interpreter_utils
from ai_edge_litert import schema_py_generated as S
from tensorflow.lite.tools import flatbuffer_utils
print("import", time.time()-t0)
import numpy, tensorflow
print(numpy.__version__, tensorflow.__version__)
p='/repo/ai_edge_quantizer/tests/models/conv_fc_mnist.tflite'
m=tfl_flatbuffer_utils.read_model(p)
sg=m.subgraphs[0]
codes=[c.builtinCode for c in m.operatorCodes]
print("opcodes", codes, "version", m.version)
for i,op in enumerate(sg.operators):
    print(i, codes[op.opcodeIndex], list(op.inputs), list(op.outputs), type(op.builtinOptions).__name__)
for i,t in enumerate(sg.tensors):
    print(i, t.name, list(t.shape), t.type, t.buffer, t.shapeSignature, t.quantization and (t.quantization.scale, ))
print("inputs", sg.inputs, "outputs", sg.outputs)
print("sigs", [(s.signatureKey, [(i.name,i.tensorIndex) for i in s.inputs], [(o.name,o.tensorIndex) for o in s.outputs], s.subgraphIndex) for s in m.signatureDefs])
print(len(m.buffers), [None if b.data is None else len(b.data) for b in m.buffers])
