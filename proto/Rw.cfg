SPECIFICATION Spec
CONSTANT MaxOps = 2
INVARIANT TopoOK
INVARIANT SingleProducer
INVARIANT Skeleton
INVARIANT ModeOK
CHECK_DEADLOCK FALSE
