---------------------------- MODULE Tv ----------------------------
EXTENDS Integers, Sequences, FiniteSets, TLC, TLCExt, Json, IOUtils
Traces == JsonDeserialize(IOEnv.TRACE_FILE)
ASSUME \A t \in 1..Len(Traces) : TLCSet(t, 0)
VARIABLES tid, l, x
vars == <<tid, l, x>>
Init == /\ tid \in 1..Len(Traces) /\ l = 1 /\ x = 0
IsEv(e) == l <= Len(Traces[tid]) /\ Traces[tid][l].ev = e /\ l' = l + 1 /\ UNCHANGED tid
Inc == IsEv("inc") /\ x' = x + Traces[tid][l].by /\ x' = Traces[tid][l].x
Rst == IsEv("rst") /\ x' = 0
Next == Inc \/ Rst
Spec == Init /\ [][Next]_vars
NonNeg == x >= 0
\* record progress: register tid -> max l reached
Progress == TLCSet(tid, IF TLCGet(tid) < l THEN l ELSE TLCGet(tid))
Constr == Progress
Post == /\ JsonSerialize(IOEnv.OUT_FILE, [t \in 1..Len(Traces) |-> [reached |-> TLCGet(t), len |-> Len(Traces[t])]])
====
