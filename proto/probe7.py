import time, numpy as np, os, sys, copy, traceback, json
sys.path.insert(0,'/tmp/scratch')
exec(open('/tmp/scratch/probe3.py').read().split('print("=== S1')[0])
from ai_edge_quantizer import model_modifier, params_generator, recipe_manager
def runi(mb, xs):
    it=tfl.Interpreter(model_content=bytes(mb)); it.allocate_tensors()
    for d,v in zip(it.get_input_details(),xs): it.set_tensor(d['index'],v)
    it.invoke()
    return [it.get_tensor(d['index']) for d in it.get_output_details()]
mp='/repo/ai_edge_quantizer/tests/models/conv_fc_mnist.tflite'
mb=open(mp,'rb').read()
q=quantizer.Quantizer(mb,'/repo/ai_edge_quantizer/recipes/dynamic_wi8_afp32_recipe.json')
params=q._get_quantization_params(None)
mm=model_modifier.ModelModifier(mb)
small=mm.modify_model(params)
# large path
mm2=model_modifier.ModelModifier(mb)
qm=copy.deepcopy(flatbuffer_utils.read_model_from_bytearray(mb))
insts=mm2._transformation_instruction_generator.quant_params_to_transformation_insts(params,qm)
mm2._transformation_performer.transform_graph(insts,qm)
mm2._process_constant_map(qm)
large=mm2._serialize_large_model(qm)
print(len(small),len(large))
x=[np.random.default_rng(1).normal(size=(1,28,28,1)).astype(np.float32)]
a=runi(small,x)
try:
    b=runi(large,x); print("equal outputs", np.array_equal(a[0],b[0]))
except Exception as e: print("ERR large", e)
ml=tfl_flatbuffer_utils.read_model(bytes(large))
print([(b.offset,b.size,None if b.data is None else len(b.data)) for b in ml.buffers])
