SPECIFICATION Spec
CONSTANT MaxOps = 3
CHECK_DEADLOCK FALSE
