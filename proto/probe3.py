import time, numpy as np, os, sys, copy, traceback
sys.path.insert(0,'/tmp/scratch')
from gb import *
from ai_edge_quantizer import quantizer, qtyping, recipe
from ai_edge_quantizer.utils import tfl_flatbuffer_utils, tfl_interpreter_utils
from ai_edge_litert import interpreter as tfl
Q=qtyping
rng=np.random.default_rng(0)
def srq8(): return Q.OpQuantizationConfig(activation_tensor_config=Q.TensorQuantizationConfig(8,False),weight_tensor_config=Q.TensorQuantizationConfig(8,True,Q.QuantGranularity.CHANNELWISE),compute_precision=Q.ComputePrecision.INTEGER)
def dump(mb):
    m2=tfl_flatbuffer_utils.read_model(bytes(mb)); 
    for si,s2 in enumerate(m2.subgraphs):
        codes=[c.builtinCode for c in m2.operatorCodes]
        for i,op in enumerate(s2.operators): print("  ",i,codes[op.opcodeIndex],list(map(int,op.inputs)),list(map(int,op.outputs)))
        for i,tt in enumerate(s2.tensors): print("  t",i,tt.name,tt.type,tt.buffer, None if tt.quantization is None else (tt.quantization.scale, tt.quantization.zeroPoint))
        print("  ins",s2.inputs,"outs",s2.outputs)
    print("  sig",[(s.signatureKey,[(o.name,o.tensorIndex) for o in s.inputs],[(o.name,o.tensorIndex) for o in s.outputs]) for s in m2.signatureDefs])
def run(mb, **kw):
    it=tfl.Interpreter(model_content=bytes(mb)); it.allocate_tensors()
    r=it.get_signature_runner("serving_default")
    return r(**kw)

print("=== S1: x -> FC(y) ; y graph output and consumed by ADD(y,y)->z ; then TANH(z)->u. SRQ on FC, ADD, TANH, float IO")
g=G(); sg=g.subgraph()
x=g.tensor(sg,"x",[1,4]); w=g.tensor(sg,"w",[3,4],rng.normal(size=(3,4)).astype(np.float32)); b=g.tensor(sg,"b",[3],rng.normal(size=(3,)).astype(np.float32))
y=g.tensor(sg,"y",[1,3]); z=g.tensor(sg,"z",[1,3]); u=g.tensor(sg,"u",[1,3])
o,t=fc_opts(); g.op(sg,B.FULLY_CONNECTED,[x,w,b],[y],o,t)
o,t=add_opts(); g.op(sg,B.ADD,[y,y],[z],o,t)
g.op(sg,B.TANH,[z],[u])
sg.inputs=[x]; sg.outputs=[y,u]
g.signature("serving_default",0,[("x",x)],[("y",y),("u",u)])
mb=g.bytes()
print("float:", run(mb,x=np.ones((1,4),np.float32)))
q=quantizer.Quantizer(mb)
for opn in [Q.TFLOperationName.FULLY_CONNECTED,Q.TFLOperationName.ADD,Q.TFLOperationName.TANH]:
    q.update_quantization_recipe(".*",opn,srq8())
cal=q.calibrate([{"x":rng.normal(size=(1,4)).astype(np.float32)} for _ in range(3)])
cal0=copy.deepcopy(cal)
try:
    res=q.quantize(cal); dump(res.quantized_model)
    print("quant:", run(res.quantized_model,x=np.ones((1,4),np.float32)))
except Exception as e: traceback.print_exc()
print("calibration result mutated by quantize?", {k:(cal0[k],cal[k]) for k in cal if not (np.array_equal(cal0[k]['min'],cal[k]['min']) and np.array_equal(cal0[k]['max'],cal[k]['max']))})
