import json, sys, os, collections, time, traceback, re
import numpy as np
sys.path.insert(0,'/tmp/scratch')
from gb import *
from absl import logging as alog
alog.set_verbosity(alog.ERROR)
from ai_edge_quantizer import quantizer, qtyping as Q
from ai_edge_litert import interpreter as tfl
from tensorflow.lite.tools import flatbuffer_utils
BO=S.BuiltinOptions; OP=Q.TFLOperationName
rng=np.random.default_rng(0)
def opt(cls,**kw):
    o=cls()
    for k,v in kw.items(): setattr(o,k,v)
    return o
def W(bits,sym=True,g=Q.QuantGranularity.CHANNELWISE): return Q.TensorQuantizationConfig(bits,sym,g)
CFG={"SRQa":Q.OpQuantizationConfig(activation_tensor_config=Q.TensorQuantizationConfig(8,False),weight_tensor_config=W(8),compute_precision=Q.ComputePrecision.INTEGER),
     "SRQb":Q.OpQuantizationConfig(activation_tensor_config=Q.TensorQuantizationConfig(16,True),weight_tensor_config=W(8),compute_precision=Q.ComputePrecision.INTEGER),
     "DRQ":Q.OpQuantizationConfig(weight_tensor_config=W(8),compute_precision=Q.ComputePrecision.INTEGER),
     "WO":Q.OpQuantizationConfig(weight_tensor_config=W(8),compute_precision=Q.ComputePrecision.FLOAT,explicit_dequantize=True)}
KOP={"FC":(B.FULLY_CONNECTED,OP.FULLY_CONNECTED),"EW2":(B.ADD,OP.ADD),"EW1":(B.GELU,OP.GELU),"SAMEIN":(B.AVERAGE_POOL_2D,OP.AVERAGE_POOL_2D),
     "CONCAT":(B.CONCATENATION,OP.CONCATENATION),"FIXED":(B.TANH,OP.TANH),"UNSUP":(B.RELU,None)}
def build(scn):
    g=G(); sg=g.subgraph()
    nt=len(scn["trole"]); shapes={0:[1,2,2,4]}; bias=set(); wts=set()
    for o in scn["gops"]:
        k=o["kind"]; ins=o["ins"]
        if k=="FC":
            wts.add(ins[1]); 
            if ins[2]!=-1: bias.add(ins[2])
    # infer act shapes in op order
    for o in scn["gops"]:
        k=o["kind"]; ins=[i for i in o["ins"] if i!=-1]
        ash=[shapes[i] for i in ins if scn["trole"][i]=="act"]
        if k=="CONCAT":
            n=0
            for i in o["ins"]:
                n+= shapes[i][0] if scn["trole"][i]=="act" else 1
            shapes[o["outs"][0]]=[n,2,2,4]
        elif k=="EW2":
            ns=[shapes[i][0] if scn["trole"][i]=="act" else 1 for i in o["ins"]]
            if len(set(n for n in ns if n!=1))>1: return None
            shapes[o["outs"][0]]=[max(ns),2,2,4]
        else:
            shapes[o["outs"][0]]=list(ash[0])
    generic=set()
    for o in scn["gops"]:
        if o["kind"] in ("EW2","CONCAT"):
            for i in o["ins"]:
                if scn["trole"][i]=="const": generic.add(i)
    if (wts & bias) or (wts & generic) or (bias & generic): return None
    ids=[]
    for t in range(nt):
        name="t%02d_"%t
        if scn["trole"][t]=="act": ids.append(g.tensor(sg,name,shapes[t]))
        elif t in wts: ids.append(g.tensor(sg,name,[4,4],rng.normal(size=(4,4)).astype(np.float32)))
        elif t in bias: ids.append(g.tensor(sg,name,[4],rng.normal(size=(4,)).astype(np.float32)))
        else: ids.append(g.tensor(sg,name,[1,2,2,4],rng.normal(size=(1,2,2,4)).astype(np.float32)))
    for o in scn["gops"]:
        k=o["kind"]; code=KOP[k][0]
        if k=="FC": g.op(sg,code,o["ins"],o["outs"],opt(S.FullyConnectedOptionsT,keepNumDims=True),BO.FullyConnectedOptions)
        elif k=="EW2": g.op(sg,code,o["ins"],o["outs"],S.AddOptionsT(),BO.AddOptions)
        elif k=="SAMEIN": g.op(sg,code,o["ins"],o["outs"],opt(S.Pool2DOptionsT,padding=S.Padding.SAME,strideW=1,strideH=1,filterWidth=2,filterHeight=2),BO.Pool2DOptions)
        elif k=="CONCAT": g.op(sg,code,o["ins"],o["outs"],opt(S.ConcatenationOptionsT,axis=0),BO.ConcatenationOptions)
        else: g.op(sg,code,o["ins"],o["outs"])
    sg.inputs=[0]; sg.outputs=list(scn["gouts"])
    g.signature("serving_default",0,[("x",0)],[("o%d"%i,t) for i,t in enumerate(scn["gouts"])])
    return g.bytes()
def project(mb, nops0, nt0):
    m=flatbuffer_utils.read_model_from_bytearray(bytes(mb)); sg=m.subgraphs[0]
    codes=[c.builtinCode for c in m.operatorCodes]
    ops=[]; orig=0
    for op in sg.operators:
        c=codes[op.opcodeIndex]
        inserted = c in (B.QUANTIZE,B.DEQUANTIZE) and int(op.outputs[0])>=nt0
        ops.append({"outs":[int(x) for x in op.outputs],"ins":[int(x) for x in op.inputs],"orig": -1 if inserted else orig})
        if not inserted: orig+=1
    tt=[]
    for t in sg.tensors:
        ty=t.type
        tt.append({0:"f",9:"i8",7:"i16",2:"i32",4:"i64",17:"i4",1:"f16"}.get(ty,str(ty)))
    return ops,[int(x) for x in sg.outputs],tt
def spec_tt(x):
    if x==["f"]: return "f"
    if x==["q","a"]: return "i8"
    if x==["q","b"]: return "i16"
    if x==["qw"]: return "i8"
    if x==["qb"]: return None   # bias: i32 or i64
    return "?"
def main():
    seen=set(); stats=collections.Counter(); shown=collections.Counter(); t0=time.time(); n=0
    for line in open('/tmp/scratch/tla/dump.txt'):
        if not line.startswith('<<"DUMP"'): continue
        js=json.loads(json.loads(line[line.index(',')+1:line.rindex('>>')].strip()))
        key=json.dumps(js["scn"],sort_keys=True)
        if key in seen: continue
        seen.add(key); scn=js["scn"]
        if len(sys.argv)>1 and n>=int(sys.argv[1]): break
        n+=1
        mb=build(scn)
        if mb is None: stats["unrealisable"]+=1; continue
        q=quantizer.Quantizer(mb)
        for i,o in enumerate(scn["gops"]):
            md=scn["mode"][i]
            if md!="NOQ": q.update_quantization_recipe("t%02d_"%o["outs"][0],KOP[o["kind"]][1],CFG[md])
        if scn["outmode"]!="NOQ": q.update_quantization_recipe(".*",OP.OUTPUT,CFG["SRQa"])
        if not q.get_quantization_recipe(): q.update_quantization_recipe("nomatch_zz",OP.FULLY_CONNECTED,None,"no_quantize")
        try:
            if os.environ.get("INJECT"):
                cal={("t%02d_"%t):{"min":np.array([[[[-(1+0.37*t)]]]],np.float32),"max":np.array([[[[0.5+0.21*t]]]],np.float32)} for t in range(len(scn["trole"])) if scn["trole"][t]=="act"} if q.need_calibration else None
            else:
                cal=q.calibrate([{"x":rng.normal(size=(1,2,2,4)).astype(np.float32)}]) if q.need_calibration else None
            res=q.quantize(cal); out=("done",None)
        except Exception as e:
            msg=str(e)
            why="buffer_sharing" if "share the same buffer" in msg else "list_remove" if "list.remove" in msg else "both_q_and_unq" if "both quantized and unquantized" in msg else type(e).__name__+":"+msg[:60]
            out=("raised",why)
        pred=(js["pc"], js["why"] if js["pc"]=="raised" else None)
        if out!=pred:
            stats["OUTCOME-MISMATCH"]+=1
            stats["om:%s->%s"%(pred,out)]+=1
            if shown["o"]<4: shown["o"]+=1; print("OUTCOME MISMATCH pred",pred,"impl",out,key[:300])
            continue
        if out[0]=="raised": stats["agree-raised:"+out[1]]+=1; continue
        ops,outs,tt=project(res.quantized_model,len(scn["gops"]),len(scn["trole"]))
        ok = ops==js["ops"] and outs==js["outs"] and len(tt)==len(js["ttype"]) and all(spec_tt(a) in (None,b) or (spec_tt(a) is None and b in("i32","i64")) for a,b in zip(js["ttype"],tt))
        if ok: stats["agree-done"]+=1
        else:
            stats["FINAL-MISMATCH"]+=1
            if shown["f"]<4: shown["f"]+=1; print("FINAL MISMATCH",key[:260],"\n  spec",js["ops"],js["outs"],js["ttype"],"\n  impl",ops,outs,tt)
    print("scenarios",n,"time %.1fs"%(time.time()-t0),dict(stats))
main()
