import time, numpy as np, os, sys, copy, traceback, json
sys.path.insert(0,'/tmp/scratch')
exec(open('/tmp/scratch/probe3.py').read().split('print("=== S1')[0])
from ai_edge_quantizer.algorithms.uniform_quantize import uniform_quantize_tensor as uq
print("=== D4 dequant wrap")
zp,sc=uq.tensor_zp_scale_from_min_max(np.array([[0.0]],np.float32),np.array([[2.55]],np.float32),8,False)
print(zp,zp.dtype,sc)
p=Q.UniformQuantParams(8,None,sc,zp,False)
qv=uq.uniform_quantize(np.array([[2.55,0.0,1.0]],np.float32),p); print(qv,qv.dtype)
print("deq", uq.uniform_dequantize(qv,p))
print("=== D5 sample recipe")
try:
    q=quantizer.Quantizer(open('/repo/ai_edge_quantizer/tests/models/single_fc.tflite','rb').read(), '/repo/ai_edge_quantizer/recipes/sample_advanced_usage_recipe.json'); print("loaded")
except Exception as e: print("ERR",type(e),e)
print("=== D2 scope mismatch")
g=G(); sg=g.subgraph()
x=g.tensor(sg,"x",[1,4]); w=g.tensor(sg,"w",[3,4],rng.normal(size=(3,4)).astype(np.float32)); b=g.tensor(sg,"b",[3],rng.normal(size=(3,)).astype(np.float32))
y=g.tensor(sg,"y",[1,3]); 
o,t=fc_opts(); g.op(sg,B.FULLY_CONNECTED,[x,w,b],[y],o,t)
sg.inputs=[x]; sg.outputs=[y]
g.signature("serving_default",0,[("x",x)],[("y",y)])
mb=g.bytes()
for rgx in ["y$","^y;$","y;"]:
    q=quantizer.Quantizer(mb); q.update_quantization_recipe(rgx,Q.TFLOperationName.FULLY_CONNECTED,srq8())
    cal=q.calibrate([{"x":rng.normal(size=(1,4)).astype(np.float32)}])
    print(rgx, "calib keys", sorted(cal))
    try:
        res=q.quantize(cal); m2=tfl_flatbuffer_utils.read_model(bytes(res.quantized_model)); print("  quantized op count", len(m2.subgraphs[0].operators), [t.type for t in m2.subgraphs[0].tensors])
    except Exception as e: print("  ERR",type(e).__name__,str(e)[:150])
print("=== D8 two signatures calibrate")
mp='/repo/ai_edge_quantizer/tests/models/two_signatures.tflite'
m=tfl_flatbuffer_utils.read_model(mp)
print([(s.signatureKey,s.subgraphIndex,[(i.name,i.tensorIndex) for i in s.inputs]) for s in m.signatureDefs])
for si,s in enumerate(m.subgraphs): print(si,[t.name for t in s.tensors],[ (m.operatorCodes[o.opcodeIndex].builtinCode,list(o.inputs),list(o.outputs)) for o in s.operators])
q=quantizer.Quantizer(mp,'/repo/ai_edge_quantizer/recipes/default_a8w8_recipe.json')
try:
    c1=q.calibrate([{"x":np.array([2.0],np.float32)}],signature_key="add"); print("add",sorted(c1))
    c2=q.calibrate([{"x":np.array([2.0],np.float32)}],signature_key="multiply",previous_calibration_result=c1); print("mul",{k:v for k,v in c2.items()})
    res=q.quantize(c2); print("ok")
except Exception as e: traceback.print_exc()
