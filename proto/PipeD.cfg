SPECIFICATION Spec
CONSTANTS MaxOps = 2
 Kinds = {"FC", "EW2", "EW1", "SAMEIN", "CONCAT", "FIXED", "UNSUP"}
 UseConst = TRUE
CONSTRAINT DumpC
CHECK_DEADLOCK FALSE
