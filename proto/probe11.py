import numpy as np, os, sys, traceback
sys.path.insert(0,'/tmp/scratch')
from gb import *
from ai_edge_litert import interpreter as tfl
from ai_edge_quantizer import quantizer, qtyping as Q
rng=np.random.default_rng(0)
BO=S.BuiltinOptions
def f32(*s): return rng.normal(size=s).astype(np.float32)
def i32(v): return np.array(v,np.int32)
SH=[1,2,2,4]
def mk(build):
    g=G(); sg=g.subgraph(); x=g.tensor(sg,"x",SH)
    outs, extra_inputs = build(g,sg,x)
    sg.inputs=[x]+[e for e in extra_inputs]; sg.outputs=outs
    g.signature("serving_default",0,[("x",x)]+[("e%d"%i,e) for i,e in enumerate(extra_inputs)],[("o%d"%i,o) for i,o in enumerate(outs)])
    return g.bytes(), g
def run(mb):
    it=tfl.Interpreter(model_content=mb, experimental_op_resolver_type=tfl.OpResolverType.BUILTIN_WITHOUT_DEFAULT_DELEGATES); it.allocate_tensors()
    for d in it.get_input_details():
        if d['dtype']==np.float32: it.set_tensor(d['index'], rng.normal(size=d['shape']).astype(np.float32))
        else: it.set_tensor(d['index'], np.zeros(d['shape'],d['dtype']))
    it.invoke()
    return [it.get_tensor(d['index']).shape for d in it.get_output_details()]
def opt(cls,**kw):
    o=cls()
    for k,v in kw.items(): setattr(o,k,v)
    return o
builders={}
def reg(n): 
    def d(f): builders[n]=f; return f
    return d
@reg("FULLY_CONNECTED")
def _(g,sg,x):
    w=g.tensor(sg,"w",[4,4],f32(4,4)); b=g.tensor(sg,"b",[4],f32(4)); y=g.tensor(sg,"y",SH)
    g.op(sg,B.FULLY_CONNECTED,[x,w,b],[y],opt(S.FullyConnectedOptionsT,keepNumDims=True),BO.FullyConnectedOptions); return [y],[]
@reg("CONV_2D")
def _(g,sg,x):
    w=g.tensor(sg,"w",[4,3,3,4],f32(4,3,3,4)); b=g.tensor(sg,"b",[4],f32(4)); y=g.tensor(sg,"y",SH)
    g.op(sg,B.CONV_2D,[x,w,b],[y],opt(S.Conv2DOptionsT,padding=S.Padding.SAME,strideW=1,strideH=1,dilationWFactor=1,dilationHFactor=1),BO.Conv2DOptions); return [y],[]
@reg("DEPTHWISE_CONV_2D")
def _(g,sg,x):
    w=g.tensor(sg,"w",[1,3,3,4],f32(1,3,3,4)); b=g.tensor(sg,"b",[4],f32(4)); y=g.tensor(sg,"y",SH)
    g.op(sg,B.DEPTHWISE_CONV_2D,[x,w,b],[y],opt(S.DepthwiseConv2DOptionsT,padding=S.Padding.SAME,strideW=1,strideH=1,depthMultiplier=1,dilationWFactor=1,dilationHFactor=1),BO.DepthwiseConv2DOptions); return [y],[]
@reg("CONV_2D_TRANSPOSE")
def _(g,sg,x):
    os_=g.tensor(sg,"oshape",[4],i32(SH),S.TensorType.INT32); w=g.tensor(sg,"w",[4,3,3,4],f32(4,3,3,4)); b=g.tensor(sg,"b",[4],f32(4)); y=g.tensor(sg,"y",SH)
    g.op(sg,B.TRANSPOSE_CONV,[os_,w,x,b],[y],opt(S.TransposeConvOptionsT,padding=S.Padding.SAME,strideW=1,strideH=1),BO.TransposeConvOptions); return [y],[]
@reg("BATCH_MATMUL")
def _(g,sg,x):
    w=g.tensor(sg,"w",[1,2,4,4],f32(1,2,4,4)); y=g.tensor(sg,"y",SH)
    g.op(sg,B.BATCH_MATMUL,[x,w],[y],opt(S.BatchMatMulOptionsT,adjX=False,adjY=False),BO.BatchMatMulOptions); return [y],[]
@reg("EMBEDDING_LOOKUP")
def _(g,sg,x):
    ids=g.tensor(sg,"ids",[3],i32([0,2,1]),S.TensorType.INT32); w=g.tensor(sg,"w",[5,4],f32(5,4)); y=g.tensor(sg,"y",[3,4]); z=g.tensor(sg,"z",SH)
    g.op(sg,B.EMBEDDING_LOOKUP,[ids,w],[y]); g.op(sg,B.GELU,[x],[z]); return [y,z],[]
@reg("AVERAGE_POOL_2D")
def _(g,sg,x):
    y=g.tensor(sg,"y",SH); g.op(sg,B.AVERAGE_POOL_2D,[x],[y],opt(S.Pool2DOptionsT,padding=S.Padding.SAME,strideW=1,strideH=1,filterWidth=2,filterHeight=2),BO.Pool2DOptions); return [y],[]
@reg("RESHAPE")
def _(g,sg,x):
    s=g.tensor(sg,"shape",[4],i32([1,4,1,4]),S.TensorType.INT32); y=g.tensor(sg,"y",[1,4,1,4]); g.op(sg,B.RESHAPE,[x,s],[y],opt(S.ReshapeOptionsT,newShape=[1,4,1,4]),BO.ReshapeOptions); return [y],[]
@reg("SOFTMAX")
def _(g,sg,x):
    y=g.tensor(sg,"y",SH); g.op(sg,B.SOFTMAX,[x],[y],opt(S.SoftmaxOptionsT,beta=1.0),BO.SoftmaxOptions); return [y],[]
for nm,code in [("TANH",B.TANH),("GELU",B.GELU),("RSQRT",B.RSQRT),("LOGISTIC",B.LOGISTIC),("RELU(unsup)",B.RELU),("ABS(unsup)",B.ABS)]:
    def mkb(code):
        def f(g,sg,x):
            y=g.tensor(sg,"y",SH); g.op(sg,code,[x],[y]); return [y],[]
        return f
    builders[nm]=mkb(code)
@reg("TRANSPOSE")
def _(g,sg,x):
    p=g.tensor(sg,"perm",[4],i32([0,2,1,3]),S.TensorType.INT32); y=g.tensor(sg,"y",SH); g.op(sg,B.TRANSPOSE,[x,p],[y],S.TransposeOptionsT(),BO.TransposeOptions); return [y],[]
for nm,code,cls,bo in [("ADD",B.ADD,S.AddOptionsT,BO.AddOptions),("SUB",B.SUB,S.SubOptionsT,BO.SubOptions),("MUL",B.MUL,S.MulOptionsT,BO.MulOptions)]:
    def mkb(code,cls,bo):
        def f(g,sg,x):
            c=g.tensor(sg,"c",[4],f32(4)); y=g.tensor(sg,"y",SH); z=g.tensor(sg,"z",SH)
            g.op(sg,code,[x,c],[y],cls(),bo); g.op(sg,code,[y,x],[z],cls(),bo); return [z],[]
        return f
    builders[nm]=mkb(code,cls,bo)
@reg("MEAN")
def _(g,sg,x):
    a=g.tensor(sg,"axis",[1],i32([3]),S.TensorType.INT32); y=g.tensor(sg,"y",[1,2,2,1]); g.op(sg,B.MEAN,[x,a],[y],opt(S.ReducerOptionsT,keepDims=True),BO.ReducerOptions); return [y],[]
@reg("CONCATENATION")
def _(g,sg,x):
    y=g.tensor(sg,"y",[1,2,2,8]); g.op(sg,B.CONCATENATION,[x,x],[y],opt(S.ConcatenationOptionsT,axis=3),BO.ConcatenationOptions); return [y],[]
@reg("STRIDED_SLICE")
def _(g,sg,x):
    b=g.tensor(sg,"begin",[4],i32([0,0,0,0]),S.TensorType.INT32); e=g.tensor(sg,"end",[4],i32([1,2,2,2]),S.TensorType.INT32); s=g.tensor(sg,"strides",[4],i32([1,1,1,1]),S.TensorType.INT32)
    y=g.tensor(sg,"y",[1,2,2,2]); g.op(sg,B.STRIDED_SLICE,[x,b,e,s],[y],S.StridedSliceOptionsT(),BO.StridedSliceOptions); return [y],[]
@reg("SPLIT")
def _(g,sg,x):
    a=g.tensor(sg,"axis",[],i32(3),S.TensorType.INT32); y1=g.tensor(sg,"y1",[1,2,2,2]); y2=g.tensor(sg,"y2",[1,2,2,2]); g.op(sg,B.SPLIT,[a,x],[y1,y2],opt(S.SplitOptionsT,numSplits=2),BO.SplitOptions); return [y1,y2],[]
R='/repo/ai_edge_quantizer/recipes/'
for nm,b in builders.items():
    try:
        mb,g=mk(b); shp=run(mb); msg="float ok %s"%shp
    except Exception as e:
        msg="FLOAT FAIL "+str(e)[:120]; print(nm,msg); continue
    outs=[]
    for rec in ['default_a8w8_recipe.json','default_a16w8_recipe.json','dynamic_wi8_afp32_recipe.json','default_af32w4float_recipe.json']:
        try:
            q=quantizer.Quantizer(mb,R+rec); cal=None
            if q.need_calibration:
                it=tfl.Interpreter(model_content=mb); r=it.get_signature_runner("serving_default")
                data={k:(rng.normal(size=v['shape']).astype(np.float32) if v['dtype']==np.float32 else np.zeros(v['shape'],v['dtype'])) for k,v in r.get_input_details().items()}
                cal=q.calibrate([data])
            res=q.quantize(cal)
            try: run(bytes(res.quantized_model)); outs.append("ok")
            except Exception as e: outs.append("RUNFAIL:"+str(e)[:60])
        except Exception as e: outs.append("RAISE:"+type(e).__name__+":"+str(e)[:50])
    print(nm,msg,outs)
