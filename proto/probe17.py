import numpy as np, os, sys, traceback, itertools, collections, json, time
sys.path.insert(0,'/tmp/scratch')
from absl import logging as alog
alog.set_verbosity(alog.ERROR)
src=open('/tmp/scratch/probe11.py').read().split("R='/repo/ai_edge_quantizer/recipes/'")[0]
exec(src)
OPN=Q.TFLOperationName
name2op={"FULLY_CONNECTED":OPN.FULLY_CONNECTED,"CONV_2D":OPN.CONV_2D,"DEPTHWISE_CONV_2D":OPN.DEPTHWISE_CONV_2D,"CONV_2D_TRANSPOSE":OPN.CONV_2D_TRANSPOSE,"BATCH_MATMUL":OPN.BATCH_MATMUL,
 "EMBEDDING_LOOKUP":OPN.EMBEDDING_LOOKUP,"AVERAGE_POOL_2D":OPN.AVERAGE_POOL_2D,"RESHAPE":OPN.RESHAPE,"SOFTMAX":OPN.SOFTMAX,"TANH":OPN.TANH,"GELU":OPN.GELU,"RSQRT":OPN.RSQRT,"LOGISTIC":OPN.LOGISTIC,
 "TRANSPOSE":OPN.TRANSPOSE,"ADD":OPN.ADD,"SUB":OPN.SUB,"MUL":OPN.MUL,"MEAN":OPN.MEAN,"CONCATENATION":OPN.CONCATENATION,"STRIDED_SLICE":OPN.STRIDED_SLICE,"SPLIT":OPN.SPLIT}
def lattice():
    acts=[None]+[Q.TensorQuantizationConfig(b,s) for b in (8,16) for s in (True,False)]
    for a in acts:
        for wb in (4,8,16):
            for ws in (True,False):
                for wg in (Q.QuantGranularity.TENSORWISE,Q.QuantGranularity.CHANNELWISE):
                    for wd in (Q.TensorDataType.INT,Q.TensorDataType.FLOAT):
                        for cp in (Q.ComputePrecision.INTEGER,Q.ComputePrecision.FLOAT):
                            for ed in (True,False):
                                yield (a,wb,ws,wg,wd,cp,ed)
def key(p):
    a,wb,ws,wg,wd,cp,ed=p
    return "a=%s w%d%s%s%s %s ed=%d"%("none" if a is None else "%d%s"%(a.num_bits,"s" if a.symmetric else "a"),wb,"s" if ws else "a","C" if wg=="CHANNELWISE" else "T","i" if wd=="INT" else "f",cp.value[:3],ed)
def fin(mb,feeds):
    it=tfl.Interpreter(model_content=mb, experimental_op_resolver_type=tfl.OpResolverType.BUILTIN_WITHOUT_DEFAULT_DELEGATES); it.allocate_tensors()
    for d in it.get_input_details(): it.set_tensor(d['index'], feeds[d['name']])
    it.invoke()
    outs={}
    for d in it.get_output_details():
        v=it.get_tensor(d['index'])
        sc,zp=d['quantization']
        outs[d['name']]=v.astype(np.float32) if sc==0 else (v.astype(np.float32)-zp)*sc
    return outs
cnt=collections.Counter(); acc_rows=[]; ctor_err=0
t0=time.time()
models={}
for nm,b in builders.items():
    if nm not in name2op: continue
    mb,g=mk(b); models[nm]=mb
for p in lattice():
    a,wb,ws,wg,wd,cp,ed=p
    try: cfg=Q.OpQuantizationConfig(activation_tensor_config=a,weight_tensor_config=Q.TensorQuantizationConfig(wb,ws,wg,wd),compute_precision=cp,explicit_dequantize=ed)
    except ValueError: ctor_err+=1; continue
    for alg in ("min_max_uniform_quantize","float_casting"):
        for nm,mb in models.items():
            q=quantizer.Quantizer(mb)
            try: q.update_quantization_recipe("y",name2op[nm],cfg,alg); ok=True
            except ValueError: ok=False
            except Exception as e: cnt["OTHER-EXC-"+type(e).__name__]+=1; continue
            cnt["accepted" if ok else "refused"]+=1
            if not ok: continue
            # run
            x=rng.normal(size=(1,2,2,4)).astype(np.float32)
            if nm=="RSQRT": x=np.abs(x)+0.1
            feeds={"x":x}
            try:
                cal=q.calibrate([{"x":x}]) if q.need_calibration else None
                res=q.quantize(cal)
            except Exception as e:
                acc_rows.append((nm,alg,key(p),"QUANTIZE-RAISED "+type(e).__name__+str(e)[:80],None)); continue
            try:
                fo=fin(mb,feeds); qo=fin(bytes(res.quantized_model),feeds)
            except Exception as e:
                acc_rows.append((nm,alg,key(p),"RUN-FAILED "+str(e)[:100],None)); continue
            errs=[]
            for (kf,vf),(kq,vq) in zip(sorted(fo.items()),sorted(qo.items())):
                rngf=float(vf.max()-vf.min()) or 1.0
                errs.append(float(np.sqrt(np.mean((vf-vq)**2))/rngf))
            acc_rows.append((nm,alg,key(p),"ok",max(errs)))
print("time",time.time()-t0,"ctor refused",ctor_err,dict(cnt))
bad=[r for r in acc_rows if r[3]!="ok"]
print("accepted-but-failing:",len(bad))
for r in bad[:20]: print("  ",r)
oks=sorted([r for r in acc_rows if r[3]=="ok"], key=lambda r:-r[4])
print("worst relative RMS errors among accepted:")
for r in oks[:25]: print("   %.4f"%r[4], r[0], r[1], r[2])
import statistics
print("median err", statistics.median(r[4] for r in oks), "n", len(oks))
