import numpy as np, os, sys, traceback, copy
sys.path.insert(0,'/tmp/scratch')
from absl import logging as alog
alog.set_verbosity(alog.ERROR)
from gb import *
from ai_edge_quantizer import model_modifier
from tensorflow.lite.tools import flatbuffer_utils
from ai_edge_litert import schema_py_generated as S
rng=np.random.default_rng(0)
def raw_buffers(b):
    m=S.Model.GetRootAs(bytes(b),0)
    return [(m.Buffers(i).Offset(), m.Buffers(i).Size(), m.Buffers(i).DataLength()) for i in range(m.BuffersLength())]
bad=0; n=0; shifts=set()
for desc_len in range(0,40):
  for nempty in (0,1,2,3):
    for sizes in ([5],[16,3],[1,1,1],[33]):
        g=G(); g.m.description=b"d"*desc_len; sg=g.subgraph()
        x=g.tensor(sg,"x",[1,4]); ts=[x]
        cur=x
        for i,sz in enumerate(sizes):
            c=g.tensor(sg,"c%d"%i,[sz],rng.integers(0,255,size=sz).astype(np.uint8),S.TensorType.UINT8)
            ts.append(c)
        for i in range(nempty):
            ts.append(g.tensor(sg,"e%d"%i,[0],np.zeros((0,),np.float32)))
        y=g.tensor(sg,"y",[1,4]); g.op(sg,B.CUSTOM,ts,[y])
        sg.inputs=[x]; sg.outputs=[y]
        mb=g.bytes()
        mm=model_modifier.ModelModifier(mb)
        qm=copy.deepcopy(flatbuffer_utils.read_model_from_bytearray(mb))
        mm._process_constant_map(qm)
        cm=list(mm._constant_map)
        # dummy length
        qm2=copy.deepcopy(qm)
        lg=mm._serialize_large_model(qm)
        rb=raw_buffers(lg); n+=1
        ok=True
        for (off,sz,dl),c in zip(rb,cm):
            if c is None: continue
            if off%16 or off+sz>len(lg) or bytes(lg[off:off+sz])!=bytes(c): ok=False
        # overlap
        iv=sorted((off,off+sz) for (off,sz,dl),c in zip(rb,cm) if c is not None and sz>0)
        for a,b_ in zip(iv,iv[1:]):
            if a[1]>b_[0]: ok=False
        if not ok:
            bad+=1
            if bad<=5: print("BAD desc",desc_len,"nempty",nempty,"sizes",sizes,rb,len(lg))
print("layouts",n,"bad",bad)
