import itertools, re, json, copy, sys, logging
from absl import logging as alog
alog.set_verbosity(alog.ERROR)
from ai_edge_quantizer import recipe_manager, qtyping as Q, algorithm_manager as AM
OP=Q.TFLOperationName
def W(bits,sym=True,g=Q.QuantGranularity.CHANNELWISE,dt=Q.TensorDataType.INT): return Q.TensorQuantizationConfig(bits,sym,g,dt)
CFG={
 "drq8": Q.OpQuantizationConfig(weight_tensor_config=W(8),compute_precision=Q.ComputePrecision.INTEGER),
 "srq8": Q.OpQuantizationConfig(activation_tensor_config=Q.TensorQuantizationConfig(8,False),weight_tensor_config=W(8),compute_precision=Q.ComputePrecision.INTEGER),
 "bad":  Q.OpQuantizationConfig(weight_tensor_config=W(16),compute_precision=Q.ComputePrecision.INTEGER),
 "empty": None,
 "f16": Q.OpQuantizationConfig(weight_tensor_config=W(16,dt=Q.TensorDataType.FLOAT),compute_precision=Q.ComputePrecision.FLOAT,explicit_dequantize=True),
}
ALG=["min_max_uniform_quantize","no_quantize","float_casting"]
REGEX=[".*","dense","dense_1"]
SCOPES=["model/dense/MatMul;","model/dense_1/MatMul;","model/conv/Conv2D;"]
OPS=["*",OP.FULLY_CONNECTED,OP.ADD]
TARGETS=[OP.FULLY_CONNECTED,OP.ADD,OP.CONV_2D]
def cfgobj(c): return CFG[c] if CFG[c] is not None else Q.OpQuantizationConfig()
def supported(alg,op,c):
    try: AM.check_op_quantization_config(alg,op,cfgobj(c)); return True
    except ValueError: return False
# reference model (documented semantics)
class Ref:
    def __init__(s): s.rules=[]  # list of [regex, [ (op,alg,cfg) ]]
    def add(s,r,o,c,a):
        item=(o,a,c)
        idx=[i for i,(rr,_) in enumerate(s.rules) if rr==r]
        if o=="*":
            if idx: s.rules[idx[0]][1]=[item]
            else: s.rules.append([r,[item]])
            return True
        if a!="no_quantize" and not supported(a,o,c): return False
        if not idx: s.rules.append([r,[item]]); return True
        items=s.rules[idx[0]][1]
        for k,(oo,_,_) in enumerate(items):
            if oo==o: items[k]=item; return True
        items.append(item); return True
    def resolve(s,op,scope):
        res=("no_quantize","empty")
        for r,items in s.rules:
            if re.search(r,scope):
                for (o,a,c) in items:
                    if o!="*" and o!=op: continue
                    if a!="no_quantize" and not supported(a,op,c): continue
                    res=(a,c)
        return res
    def export(s): return [(r,o,a,c) for r,items in s.rules for (o,a,c) in items]
alphabet=[(r,o,c,a) for r in REGEX for o in OPS for c in CFG for a in ALG]
print("alphabet",len(alphabet))
import random
random.seed(0)
nh=0; mism=0; rt_fail=0; states=set(); shown=0
def check(hist):
    global nh,mism,rt_fail,shown
    rm=recipe_manager.RecipeManager(); ref=Ref()
    for (r,o,c,a) in hist:
        try: rm.add_quantization_config(r,o,CFG[c],a); ok=True
        except ValueError: ok=False
        ok2=ref.add(r,o,c,a)
        if ok!=ok2:
            mism+=1; print("ACCEPT MISMATCH",hist); return
    nh+=1
    states.add(tuple(ref.export()))
    # export equality
    exp=[(d['regex'],d['operation'],d['algorithm_key']) for d in rm.get_quantization_recipe()]
    if exp!=[(r,o,a) for (r,o,a,c) in ref.export()]:
        mism+=1; print("EXPORT MISMATCH",hist)
    for t in TARGETS:
        for sc in SCOPES:
            a,cfg=rm.get_quantization_configs(t,sc)
            ra,rc=ref.resolve(t,sc)
            if a!=ra or cfg!=cfgobj(rc):
                mism+=1
                if shown<5: shown+=1; print("RESOLVE MISMATCH",hist,t,sc,a,ra)
    # round trip
    rj=json.loads(json.dumps(rm.get_quantization_recipe()))
    rm2=recipe_manager.RecipeManager()
    try:
        rm2.load_quantization_recipe(rj)
        if rm2.get_quantization_recipe()!=rm.get_quantization_recipe(): rt_fail+=1; print("RT NEQ",hist)
    except Exception as e:
        rt_fail+=1
        if rt_fail<=6: print("RT RAISE",type(e).__name__,e,hist[-1])
for L in (1,2):
    for hist in itertools.product(alphabet,repeat=L): check(hist)
for _ in range(20000):
    check(tuple(random.choice(alphabet) for _ in range(random.randint(3,6))))
print("histories",nh,"distinct states",len(states),"mismatch",mism,"roundtrip failures",rt_fail)
