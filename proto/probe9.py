import time, numpy as np, os, sys, copy, traceback, json
sys.path.insert(0,'/tmp/scratch')
exec(open('/tmp/scratch/probe3.py').read().split('print("=== S1')[0])
from ai_edge_quantizer import model_modifier
from ai_edge_litert import schema_py_generated as S
def runi(mb, xs):
    it=tfl.Interpreter(model_content=bytes(mb)); it.allocate_tensors()
    for d,v in zip(it.get_input_details(),xs): it.set_tensor(d['index'],v)
    it.invoke()
    return [it.get_tensor(d['index']) for d in it.get_output_details()]
def large(mb, params):
    mm2=model_modifier.ModelModifier(mb)
    qm=copy.deepcopy(flatbuffer_utils.read_model_from_bytearray(mb))
    insts=mm2._transformation_instruction_generator.quant_params_to_transformation_insts(params,qm)
    mm2._transformation_performer.transform_graph(insts,qm)
    mm2._process_constant_map(qm)
    return mm2._serialize_large_model(qm), mm2._constant_map
def raw_buffers(b):
    m=S.Model.GetRootAs(bytes(b),0)
    return [(m.Buffers(i).Offset(), m.Buffers(i).Size(), m.Buffers(i).DataLength()) for i in range(m.BuffersLength())]
print("=== (iv) zero-length const in large path")
g=G(); sg=g.subgraph()
x=g.tensor(sg,"x",[1,4]); w=g.tensor(sg,"w",[3,4],rng.normal(size=(3,4)).astype(np.float32)); b=g.tensor(sg,"b",[3],rng.normal(size=(3,)).astype(np.float32))
e=g.tensor(sg,"empty",[0],np.zeros((0,),np.float32))
y=g.tensor(sg,"y",[1,3]); y2=g.tensor(sg,"y2",[1,3])
o,t=fc_opts(); g.op(sg,B.FULLY_CONNECTED,[x,w,b],[y],o,t)
o,t=concat_opts=(lambda: (lambda o:(setattr(o,'axis',0),o)[1])(S.ConcatenationOptionsT()))(),S.BuiltinOptions.ConcatenationOptions
g.op(sg,B.CONCATENATION,[y],[y2],o,t)
sg.inputs=[x]; sg.outputs=[y2]; g.signature("serving_default",0,[("x",x)],[("y2",y2)])
mb=g.bytes()
m=flatbuffer_utils.read_model_from_bytearray(mb)
print("buffers as read:", [None if b.data is None else len(b.data) for b in m.buffers])
q=quantizer.Quantizer(mb,'/repo/ai_edge_quantizer/recipes/dynamic_wi8_afp32_recipe.json')
params=q._get_quantization_params(None)
small=model_modifier.ModelModifier(mb).modify_model(params)
lg,cm=large(mb,params)
print("constmap",[None if c is None else len(c) for c in cm])
rb=raw_buffers(lg); print("raw large", rb, len(lg))
for (off,sz,dl),c in zip(rb,cm):
    if c is not None: print("  ok" if bytes(lg[off:off+sz])==bytes(c) and off%16==0 else "  MISMATCH", off, sz, len(c))
try: print(np.array_equal(runi(small,[np.ones((1,4),np.float32)])[0], runi(lg,[np.ones((1,4),np.float32)])[0]))
except Exception as ex: print("ERR",ex)
