import numpy as np, sys, itertools
from fractions import Fraction as F
from ai_edge_quantizer.algorithms.uniform_quantize import uniform_quantize_tensor as uq
from ai_edge_quantizer import qtyping as Q
def rint_even(fr):
    fl = fr.numerator // fr.denominator
    rem = fr - fl
    if rem > F(1,2): return fl+1, False
    if rem < F(1,2): return fl, False
    return (fl if fl%2==0 else fl+1), True
def ref_zp_scale(mn,mx,bits,sym):
    qmin=-(2**(bits-1)); qmax=2**(bits-1)-1; mb=F(1,10000)
    if sym:
        bound=max(abs(mn),abs(mx),mb); return 0, bound/qmax, False
    bmax=max(mx,0); bmin=min(mn,0); bound=max(bmax-bmin,mb); sc=bound/(qmax-qmin)
    zp,tie=rint_even(qmin-bmin/sc); return zp,sc,tie
bad=0; n=0; ties=0; maxrel=0
for e in (-20,0,20):
  for a in range(-32,33):
    for b in range(a,33):
      mn=F(a,16)*F(2)**e; mx=F(b,16)*F(2)**e
      for bits in (4,8,16):
        for sym in (True,False):
            for dt in (np.float32,):
                zp,sc=uq.tensor_zp_scale_from_min_max(np.array([[float(mn)]],dt),np.array([[float(mx)]],dt),bits,sym)
                rz,rs,tie=ref_zp_scale(mn,mx,bits,sym)
                n+=1; ties+=tie
                rel=abs(F(float(sc.flatten()[0]))-rs)/rs
                maxrel=max(maxrel,float(rel))
                okz = int(zp.flatten()[0])==rz or (tie and abs(int(zp.flatten()[0])-rz)<=1)
                if not okz or rel>3e-7:
                    bad+=1
                    if bad<=12: print("MISMATCH",a,b,e,bits,sym,"impl",zp.flatten()[0],sc.flatten()[0],"ref",rz,float(rs),"tie",tie)
print("cases",n,"bad",bad,"ties",ties,"max rel scale err",maxrel)
# quantize/dequantize all codes 8-bit, params exactly as library produces
bad=0;n=0
for (mn,mx) in [(0.0,2.55),(-1.0,1.0),(-0.5,3.0),(-3.0,0.25)]:
    for bits in (4,8):
        for sym in (True,False):
            zp,sc=uq.tensor_zp_scale_from_min_max(np.array([[mn]],np.float32),np.array([[mx]],np.float32),bits,sym)
            p=Q.UniformQuantParams(bits,None,sc,zp,sym)
            lo=-(2**(bits-1))+(1 if sym else 0); hi=2**(bits-1)-1
            codes=np.arange(lo,hi+1).reshape(1,-1).astype(np.int8)
            deq=uq.uniform_dequantize(codes,p)
            back=uq.uniform_quantize(deq,p)
            n+=codes.size; nb=int((back!=codes).sum()); bad+=nb
            exp=(codes.astype(np.float64)-float(zp.flatten()[0]))*float(sc.flatten()[0])
            wrong=int((np.abs(deq-exp)>1e-6).sum())
            print("range",mn,mx,"bits",bits,"sym",sym,"zp",zp.flatten()[0],"roundtrip mismatches",nb,"dequant wrong",wrong)
