SPECIFICATION Spec
INVARIANT NonNeg
CONSTRAINT Constr
POSTCONDITION Post
CHECK_DEADLOCK FALSE
