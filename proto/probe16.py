import time, numpy as np, os, sys, copy, traceback, json
sys.path.insert(0,'/tmp/scratch')
exec(open('/tmp/scratch/probe3.py').read().split('print("=== S1')[0])
g=G(); sg=g.subgraph()
x=g.tensor(sg,"x",[1,4]); w=g.tensor(sg,"w",[3,4],rng.normal(size=(3,4)).astype(np.float32)); b=g.tensor(sg,"b",[3],rng.normal(size=(3,)).astype(np.float32))
y=g.tensor(sg,"y",[1,3]); z=g.tensor(sg,"z",[1,3]); u=g.tensor(sg,"u",[1,3])
o,t=fc_opts(); g.op(sg,B.FULLY_CONNECTED,[x,w,b],[y],o,t)
g.op(sg,B.TANH,[y],[z]); o,t=add_opts(); g.op(sg,B.ADD,[z,y],[u],o,t)
sg.inputs=[x]; sg.outputs=[u]
g.signature("serving_default",0,[("x",x)],[("u",u)])
mb=g.bytes()
D=[{"x":(rng.normal(size=(1,4))*(k+1)).astype(np.float32)} for k in range(4)]
q=quantizer.Quantizer(mb,'/repo/ai_edge_quantizer/recipes/default_a8w8_recipe.json')
def run_split(split):
    prev=None; i=0
    for n in split:
        prev0=copy.deepcopy(prev)
        res=q.calibrate(D[i:i+n],previous_calibration_result=prev); i+=n
        if prev0 is not None:
            same=all(np.array_equal(prev0[k]['min'],prev[k]['min']) and np.array_equal(prev0[k]['max'],prev[k]['max']) for k in prev0) and prev0.keys()==prev.keys()
            if not same: print("  PREV MODIFIED", split)
        prev=res
    return prev
base=run_split([4])
for sp in ([1,3],[2,2],[3,1],[1,1,2],[1,2,1],[2,1,1],[1,1,1,1]):
    r=run_split(sp)
    ok=r.keys()==base.keys() and all(np.array_equal(r[k]['min'],base[k]['min']) and np.array_equal(r[k]['max'],base[k]['max']) for k in r)
    print(sp, "identical to single pass:", ok)
# own reference
it=tfl.Interpreter(model_content=mb, experimental_op_resolver_type=tfl.OpResolverType.BUILTIN_WITHOUT_DEFAULT_DELEGATES, experimental_preserve_all_tensors=True); it.allocate_tensors()
names={d['name']:d['index'] for d in it.get_tensor_details()}
stats={}
for s in D:
    it.set_tensor(names['x'],s['x']); it.invoke()
    for nme in ['x','y','z','u']:
        v=it.get_tensor(names[nme]); mn,mx=float(v.min()),float(v.max())
        if nme not in stats: stats[nme]=[mn,mx]
        else: stats[nme]=[0.95*stats[nme][0]+0.05*mn, 0.95*stats[nme][1]+0.05*mx]
for nme in stats:
    print(nme, "impl", float(base[nme]['min'].flatten()[0]), float(base[nme]['max'].flatten()[0]), "ref", stats[nme], "relerr", abs(float(base[nme]['min'].flatten()[0])-stats[nme][0])/abs(stats[nme][0]))
print({k:(v['min'].shape, v['min'].dtype) for k,v in base.items()})
