import time, numpy as np, os, sys
sys.path.insert(0,'/tmp/scratch')
from gb import *
from ai_edge_quantizer import quantizer, qtyping, recipe
from ai_edge_quantizer.utils import tfl_flatbuffer_utils, tfl_interpreter_utils
from ai_edge_litert import interpreter as tfl
rng=np.random.default_rng(0)
g=G(); sg=g.subgraph()
x=g.tensor(sg,"x",[1,4]); w=g.tensor(sg,"w",[3,4],rng.normal(size=(3,4)).astype(np.float32)); b=g.tensor(sg,"b",[3],rng.normal(size=(3,)).astype(np.float32))
y=g.tensor(sg,"y",[1,3]); z=g.tensor(sg,"z",[1,3])
o,t=fc_opts(); g.op(sg,B.FULLY_CONNECTED,[x,w,b],[y],o,t)
o,t=add_opts(); g.op(sg,B.ADD,[y,y],[z],o,t)
sg.inputs=[x]; sg.outputs=[z,y]
g.signature("serving_default",0,[("x",x)],[("z",z),("y",y)])
mb=g.bytes()
t0=time.time()
it=tfl.Interpreter(model_content=mb, experimental_preserve_all_tensors=True); it.allocate_tensors()
r=it.get_signature_runner("serving_default")
print(r(x=np.ones((1,4),np.float32)), "interp", time.time()-t0)
import json
for rec in ['default_a8w8_recipe.json','default_af32w8float_recipe.json','dynamic_wi8_afp32_recipe.json','default_a16w8_recipe.json']:
    t0=time.time()
    q=quantizer.Quantizer(mb, '/repo/ai_edge_quantizer/recipes/'+rec)
    cal=None
    if q.need_calibration:
        cal=q.calibrate([{"x":rng.normal(size=(1,4)).astype(np.float32)} for _ in range(3)])
    try:
        res=q.quantize(cal)
        m2=tfl_flatbuffer_utils.read_model(bytes(res.quantized_model))
        s2=m2.subgraphs[0]
        codes=[c.builtinCode for c in m2.operatorCodes]
        print(rec, "time", time.time()-t0)
        for i,op in enumerate(s2.operators): print("  ",i,codes[op.opcodeIndex],list(map(int,op.inputs)),list(map(int,op.outputs)))
        for i,tt in enumerate(s2.tensors): print("  t",i,tt.name,tt.type,tt.buffer, None if tt.quantization is None else (tt.quantization.scale, tt.quantization.zeroPoint))
        print("  outs",s2.outputs,"sig",[(o.name,o.tensorIndex) for o in m2.signatureDefs[0].outputs])
        it=tfl.Interpreter(model_content=bytes(res.quantized_model)); it.allocate_tensors()
        r=it.get_signature_runner("serving_default")
        print("  run", r(x=np.ones((1,4),np.float32)))
    except Exception as e:
        import traceback; traceback.print_exc()
