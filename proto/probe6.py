import time, numpy as np, os, sys, copy, traceback, json
sys.path.insert(0,'/tmp/scratch')
exec(open('/tmp/scratch/probe3.py').read().split('print("=== S1')[0])
def runi(mb, xs):
    it=tfl.Interpreter(model_content=bytes(mb)); it.allocate_tensors()
    for d,v in zip(it.get_input_details(),xs): it.set_tensor(d['index'],v)
    it.invoke()
    return [it.get_tensor(d['index']) for d in it.get_output_details()]
print("=== S3 single FC SRQ float IO")
g=G(); sg=g.subgraph()
x=g.tensor(sg,"x",[1,4]); w=g.tensor(sg,"w",[3,4],rng.normal(size=(3,4)).astype(np.float32)); b=g.tensor(sg,"b",[3],rng.normal(size=(3,)).astype(np.float32))
y=g.tensor(sg,"y",[1,3]); 
o,t=fc_opts(); g.op(sg,B.FULLY_CONNECTED,[x,w,b],[y],o,t)
sg.inputs=[x]; sg.outputs=[y]
g.signature("serving_default",0,[("x",x)],[("y",y)])
mb=g.bytes()
q=quantizer.Quantizer(mb); q.update_quantization_recipe(".*",Q.TFLOperationName.FULLY_CONNECTED,srq8())
cal=q.calibrate([{"x":rng.normal(size=(1,4)).astype(np.float32)}])
res=q.quantize(cal); dump(res.quantized_model)
try: print(runi(res.quantized_model,[np.ones((1,4),np.float32)]), runi(mb,[np.ones((1,4),np.float32)]))
except Exception as e: print("ERR",e)
print("=== S4 TANH(x)->y (op0), y output only; then unrelated op1 GELU(x)->z output")
g=G(); sg=g.subgraph()
x=g.tensor(sg,"x",[1,3]); y=g.tensor(sg,"y",[1,3]); z=g.tensor(sg,"z",[1,3])
g.op(sg,B.TANH,[x],[y]); g.op(sg,B.GELU,[x],[z])
sg.inputs=[x]; sg.outputs=[y,z]
g.signature("serving_default",0,[("x",x)],[("y",y),("z",z)])
mb=g.bytes()
q=quantizer.Quantizer(mb); q.update_quantization_recipe(".*",Q.TFLOperationName.TANH,srq8())
cal=q.calibrate([{"x":rng.normal(size=(1,3)).astype(np.float32)}])
res=q.quantize(cal); dump(res.quantized_model)
try: print(runi(res.quantized_model,[np.ones((1,3),np.float32)]), runi(mb,[np.ones((1,3),np.float32)]))
except Exception as e: print("ERR",e)
